import KsVerif.Proofs.C03

/-!
# C03: from the bytes of a message to what is reported of it

`c03_request_enc` / `c03_response_enc` say that the wire model reads a well-formed message back exactly.  This file
takes the last step, to the observation the check compares: what the model reports of a message read from the
encoder's bytes (`messageSx`) is exactly what the spec expects for that message (`expectedItem`'s halves) - method,
target, version, every header field under its canonical name, the body, the status - provided the message is not
one on which net/http invents a header (`Pragma: no-cache` without `Cache-Control`, the recorded finding).
-/

namespace KsVerif.Proofs.C03Report
open KsVerif KsVerif.Http KsVerif.Http.Wire KsVerif.Http.Spec KsVerif.Proofs.C03

theorem isFraming_cl : isFramingHeader (bytesOfString "Content-Length") = true := by decide
theorem isFraming_te : isFramingHeader (bytesOfString "Transfer-Encoding") = true := by decide

/-- the framing field the encoder adds does not show in what is reported -/
theorem reported_parsedOf (m : Msg) : reportedHeaders (parsedOf m).headers = reportedHeaders m.headers := by
  unfold reportedHeaders parsedOf
  cases m.framing <;> simp [List.filter_append, isFraming_cl, isFraming_te]

/-- the condition under which net/http adds nothing: no `Pragma: no-cache` first, or a `Cache-Control` present -/
def NoInvention (hs : List (Bytes × Bytes)) : Prop := pragmaFix hs = hs

/-- **What is reported of a request is what was sent**: for every well-formed request of the encoder followed by
    anything, the model's report of the message read from those bytes is the spec's expectation for it. -/
theorem c03_reported_request (m : Msg) (hw : WfReq m) (hni : NoInvention (parsedOf m).headers) (rest : Bytes) :
    (parseRequest (encMsgCore m ++ rest)).map (fun r => (messageSx r.1, r.2)) =
      some (.list [.atom "req", Sx.ofBytes m.method, Sx.ofBytes m.target, Sx.ofNat m.minor, headersSx m.headers, Sx.ofBytes m.body], rest) := by
  rw [c03_request_enc m hw rest]
  have hreq : (parsedOf m).isRequest = true := by simp [parsedOf, hw.isReq]
  simp only [Option.map_some, messageSx, hreq, if_true]
  unfold NoInvention at hni
  rw [hni]
  simp only [headersSx, reported_parsedOf]
  simp [parsedOf]

/-- the same for a response (length- or chunk-delimited, or bodyless by its status) -/
theorem c03_reported_response (m : Msg) (rest : Bytes) (hw : WfResp m rest) (hnc : m.framing ≠ .close)
    (hni : NoInvention (parsedOf m).headers) :
    (parseResponse (encMsgCore m ++ rest)).map (fun r => (messageSx r.1, r.2)) =
      some (.list [.atom "resp", Sx.ofNat m.status, Sx.ofNat m.minor, headersSx m.headers, Sx.ofBytes m.body], rest) := by
  have h1 := c03_response_enc m rest hw
  simp only [hnc, if_false] at h1
  rw [h1]
  have hresp : (parsedOf m).isRequest = false := by simp [parsedOf, hw.isResp]
  simp only [Option.map_some, messageSx, hresp, Bool.false_eq_true, if_false]
  unfold NoInvention at hni
  rw [hni]
  simp only [headersSx, reported_parsedOf]
  simp [parsedOf]

/-- not vacuous: `exReq` (a chunked POST with two header fields) invents nothing -/
example : NoInvention (parsedOf exReq).headers := by unfold NoInvention; decide

end KsVerif.Proofs.C03Report
