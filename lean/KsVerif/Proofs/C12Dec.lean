/-
  C12, decimals: "numbers that are numerically equal compare equal, and == agrees with >= and <=
  taken together" for every pair of numbers of the model - integers of the record, integral and
  fractional literals and decimals (normalised: no trailing zero in the fraction, as the parser of
  the model produces them).  The core is the injectivity of the decimal formatter
  (`Dec.format`, strconv.FormatFloat(x, 'f', -1, 64)): == compares that text.
-/
import KsVerif.Proofs.C12

namespace KsVerif.Proofs.C12Dec
open KsVerif.Kfl KsVerif.Proofs.C12

/-! ### the text of a decimal, as a list of characters -/

def digs (n : Nat) : List Char := Nat.toDigits 10 n

def pad (l : List Char) (n : Nat) : List Char := List.replicate (n - l.length) '0' ++ l

def signL (a : Dec) : List Char := if a.num < 0 then ['-'] else []

def body (a : Dec) : List Char :=
  if a.exp = 0 then digs a.num.natAbs
  else
    let d := pad (digs a.num.natAbs) (a.exp + 1)
    d.take (d.length - a.exp) ++ '.' :: d.drop (d.length - a.exp)

theorem format_toList (a : Dec) : (Dec.format a).toList = signL a ++ body a := by
  unfold Dec.format signL body
  have hd : (toString a.num.natAbs).toList = digs a.num.natAbs := by
    show a.num.natAbs.repr.toList = _
    rw [Nat.toList_repr]; rfl
  by_cases he : a.exp = 0
  · simp only [he, if_true]
    rw [String.toList_append, hd]
    split <;> rfl
  · simp only [he, if_false]
    have hp : (Dec.padLeft (toString a.num.natAbs) (a.exp + 1)).toList = pad (digs a.num.natAbs) (a.exp + 1) := by
      unfold Dec.padLeft pad
      rw [String.toList_append, String.toList_ofList, hd, ← String.length_toList, hd]
    simp only [String.toList_append, String.toList_ofList, ← String.length_toList, hp]
    split <;> simp


theorem digs_digit {n : Nat} {c : Char} (h : c ∈ digs n) : c.isDigit = true :=
  Nat.isDigit_of_mem_toDigits (by omega) (by omega) h

theorem digs_ne_nil (n : Nat) : digs n ≠ [] := fun h => Nat.toDigits_ne_nil h

theorem pad_digit {l : List Char} {k : Nat} (hl : ∀ c ∈ l, c.isDigit = true) : ∀ c ∈ pad l k, c.isDigit = true := by
  intro c hc
  unfold pad at hc
  rw [List.mem_append] at hc
  cases hc with
  | inl h => rw [List.mem_replicate] at h; rw [h.2]; decide
  | inr h => exact hl c h

theorem pad_length (l : List Char) (k : Nat) : k ≤ (pad l k).length ∧ l.length ≤ (pad l k).length := by
  unfold pad
  simp only [List.length_append, List.length_replicate]
  omega

theorem ofDigitChars_zeros (k : Nat) (l : List Char) :
    Nat.ofDigitChars 10 (List.replicate k '0' ++ l) 0 = Nat.ofDigitChars 10 l 0 := by
  induction k with
  | zero => simp
  | succ k ih =>
    rw [List.replicate_succ, List.cons_append]
    unfold Nat.ofDigitChars at ih ⊢
    rw [List.foldl_cons]
    exact ih

theorem ofDigitChars_pad (n k : Nat) : Nat.ofDigitChars 10 (pad (digs n) k) 0 = n := by
  unfold pad
  rw [ofDigitChars_zeros]
  exact Nat.ofDigitChars_toDigits (by omega) (by omega)

theorem not_digit_dot : ('.' : Char).isDigit = false := by decide
theorem not_digit_minus : ('-' : Char).isDigit = false := by decide

/-- splitting at the first occurrence of a separator is unique -/
theorem split_unique {α : Type} [DecidableEq α] (x : α) : ∀ (l1 l2 r1 r2 : List α),
    x ∉ l1 → x ∉ l2 → l1 ++ x :: r1 = l2 ++ x :: r2 → l1 = l2 ∧ r1 = r2 := by
  intro l1
  induction l1 with
  | nil =>
    intro l2 r1 r2 _ h2 h
    cases l2 with
    | nil => simp at h; exact ⟨rfl, h⟩
    | cons y ys =>
      simp at h
      exact absurd (by rw [← h.1]; simp) h2
  | cons y ys ih =>
    intro l2 r1 r2 h1 h2 h
    cases l2 with
    | nil =>
      simp at h
      exact absurd (by rw [h.1]; simp) h1
    | cons z zs =>
      simp only [List.cons_append, List.cons.injEq] at h
      have := ih zs r1 r2 (fun hm => h1 (List.mem_cons_of_mem _ hm)) (fun hm => h2 (List.mem_cons_of_mem _ hm)) h.2
      exact ⟨by rw [h.1, this.1], this.2⟩


/-! ### the parts of the text -/

/-- the padded digits of a decimal with a fraction part -/
def dOf (a : Dec) : List Char := pad (digs a.num.natAbs) (a.exp + 1)
def ipOf (a : Dec) : List Char := (dOf a).take ((dOf a).length - a.exp)
def fpOf (a : Dec) : List Char := (dOf a).drop ((dOf a).length - a.exp)

theorem dOf_digit (a : Dec) : ∀ c ∈ dOf a, c.isDigit = true := pad_digit (fun _ h => digs_digit h)

theorem dOf_length (a : Dec) : a.exp + 1 ≤ (dOf a).length := (pad_length _ _).1

theorem ip_fp (a : Dec) : ipOf a ++ fpOf a = dOf a := List.take_append_drop _ _

theorem fp_length (a : Dec) : (fpOf a).length = a.exp := by
  unfold fpOf
  have := dOf_length a
  rw [List.length_drop]
  omega

theorem ip_ne_nil (a : Dec) : ipOf a ≠ [] := by
  intro h
  have h1 : (ipOf a).length = 0 := by rw [h]; rfl
  unfold ipOf at h1
  have := dOf_length a
  rw [List.length_take] at h1
  omega

theorem ip_digit (a : Dec) : ∀ c ∈ ipOf a, c.isDigit = true :=
  fun c h => dOf_digit a c (List.mem_of_mem_take h)

theorem fp_digit (a : Dec) : ∀ c ∈ fpOf a, c.isDigit = true :=
  fun c h => dOf_digit a c (List.mem_of_mem_drop h)

theorem body_frac (a : Dec) (h : a.exp ≠ 0) : body a = ipOf a ++ '.' :: fpOf a := by
  unfold body; simp only [h, if_false]; rfl

theorem body_int (a : Dec) (h : a.exp = 0) : body a = digs a.num.natAbs := by
  unfold body; simp only [h, if_true]

/-- the text after the sign starts with a digit -/
theorem body_head (a : Dec) : ∃ c cs, body a = c :: cs ∧ c.isDigit = true := by
  by_cases h : a.exp = 0
  · rw [body_int a h]
    cases hd : digs a.num.natAbs with
    | nil => exact absurd hd (digs_ne_nil _)
    | cons c cs => exact ⟨c, cs, rfl, digs_digit (by rw [hd]; simp)⟩
  · rw [body_frac a h]
    cases hd : ipOf a with
    | nil => exact absurd hd (ip_ne_nil a)
    | cons c cs => exact ⟨c, cs ++ '.' :: fpOf a, rfl, ip_digit a c (by rw [hd]; simp)⟩

theorem dot_not_mem {l : List Char} (hl : ∀ c ∈ l, c.isDigit = true) : '.' ∉ l :=
  fun h => by have := hl _ h; rw [not_digit_dot] at this; cases this

/-- **the formatter is injective**: two decimals print the same text only if they are the same -/
theorem format_inj (a b : Dec) (h : Dec.format a = Dec.format b) : a = b := by
  have hl : signL a ++ body a = signL b ++ body b := by rw [← format_toList, ← format_toList, h]
  obtain ⟨ca, csa, hba, hda⟩ := body_head a
  obtain ⟨cb, csb, hbb, hdb⟩ := body_head b
  -- the sign
  have hsign : (a.num < 0 ↔ b.num < 0) ∧ body a = body b := by
    unfold signL at hl
    by_cases ha : a.num < 0 <;> by_cases hb : b.num < 0
    · simp only [ha, hb, if_true] at hl; exact ⟨by simp [ha, hb], List.append_cancel_left hl⟩
    · simp only [ha, hb, if_true, if_false] at hl
      rw [hbb] at hl; simp at hl
      rw [← hl.1] at hdb; rw [not_digit_minus] at hdb; cases hdb
    · simp only [ha, hb, if_true, if_false] at hl
      rw [hba] at hl; simp at hl
      rw [hl.1] at hda; rw [not_digit_minus] at hda; cases hda
    · simp only [ha, hb, if_false] at hl; exact ⟨by simp [ha, hb], by simpa using hl⟩
  obtain ⟨hs, hb⟩ := hsign
  -- exponent and digits
  have key : a.exp = b.exp ∧ a.num.natAbs = b.num.natAbs := by
    by_cases ea : a.exp = 0 <;> by_cases eb : b.exp = 0
    · rw [body_int a ea, body_int b eb] at hb
      refine ⟨by omega, ?_⟩
      have h1 := Nat.ofDigitChars_toDigits (b := 10) (n := a.num.natAbs) (by omega) (by omega)
      have h2 := Nat.ofDigitChars_toDigits (b := 10) (n := b.num.natAbs) (by omega) (by omega)
      unfold digs at hb
      rw [hb] at h1; omega
    · rw [body_int a ea, body_frac b eb] at hb
      exact absurd (by rw [hb]; simp) (dot_not_mem (l := digs a.num.natAbs) (fun _ h => digs_digit h))
    · rw [body_frac a ea, body_int b eb] at hb
      exact absurd (by rw [← hb]; simp) (dot_not_mem (l := digs b.num.natAbs) (fun _ h => digs_digit h))
    · rw [body_frac a ea, body_frac b eb] at hb
      obtain ⟨hip, hfp⟩ := split_unique '.' _ _ _ _ (dot_not_mem (ip_digit a)) (dot_not_mem (ip_digit b)) hb
      have he : a.exp = b.exp := by rw [← fp_length a, ← fp_length b, hfp]
      refine ⟨he, ?_⟩
      have hd : dOf a = dOf b := by rw [← ip_fp a, ← ip_fp b, hip, hfp]
      have h1 := ofDigitChars_pad a.num.natAbs (a.exp + 1)
      have h2 := ofDigitChars_pad b.num.natAbs (b.exp + 1)
      unfold dOf at hd
      rw [hd] at h1; omega
  obtain ⟨he, hn⟩ := key
  have hnum : a.num = b.num := by
    by_cases ha : a.num < 0
    · have hb' := hs.mp ha; omega
    · have hb' : ¬ b.num < 0 := fun h => ha (hs.mpr h)
      omega
  cases a; cases b; simp_all


/-! ### numerically equal ⇔ same decimal, for normalised decimals -/

/-- no trailing zero in the fraction (what `Dec.mk'` / the parsers of the model produce) -/
def Norm (a : Dec) : Prop := a.exp = 0 ∨ a.num % 10 ≠ 0

theorem ten_pow_ne_zero (k : Nat) : (10 : Int) ^ k ≠ 0 := by
  induction k with
  | zero => simp
  | succ k ih => rw [Int.pow_succ]; omega

theorem not_norm_of_shift (a b : Dec) (k : Nat) (hk : b.exp = a.exp + (k + 1))
    (h : a.num * (10 : Int) ^ b.exp = b.num * (10 : Int) ^ a.exp) : ¬ Norm b := by
  rw [hk, Int.pow_add] at h
  have h' : (a.num * (10 : Int) ^ (k + 1)) * (10 : Int) ^ a.exp = b.num * (10 : Int) ^ a.exp := by
    rw [← h, Int.mul_assoc, Int.mul_comm ((10 : Int) ^ (k + 1))]
  have hb : a.num * (10 : Int) ^ (k + 1) = b.num := (Int.mul_eq_mul_right_iff (ten_pow_ne_zero a.exp)).mp h'
  intro hn
  cases hn with
  | inl h0 => omega
  | inr hm =>
    apply hm
    rw [← hb, Int.pow_succ, ← Int.mul_assoc]
    exact Int.mul_emod_left _ _

theorem eqv_norm_eq (a b : Dec) (ha : Norm a) (hb : Norm b)
    (h : a.num * (10 : Int) ^ b.exp = b.num * (10 : Int) ^ a.exp) : a = b := by
  have he : a.exp = b.exp := by
    rcases Nat.lt_trichotomy a.exp b.exp with hlt | heq | hgt
    · exfalso
      exact not_norm_of_shift a b (b.exp - a.exp - 1) (by omega) h hb
    · exact heq
    · exfalso
      exact not_norm_of_shift b a (a.exp - b.exp - 1) (by omega) h.symm ha
  have hn : a.num = b.num := by
    rw [he] at h
    exact (Int.mul_eq_mul_right_iff (ten_pow_ne_zero b.exp)).mp h
  cases a; cases b; simp_all

theorem normalize_norm : ∀ (fuel : Nat) (n : Int) (e : Nat), e ≤ fuel → Norm (Dec.normalize fuel n e) := by
  intro fuel
  induction fuel with
  | zero => intro n e h; unfold Dec.normalize; exact Or.inl (by simp only; omega)
  | succ f ih =>
    intro n e h
    unfold Dec.normalize
    by_cases hc : e > 0 ∧ n % 10 = 0
    · rw [if_pos hc]; exact ih _ _ (by omega)
    · rw [if_neg hc]
      by_cases he : e = 0
      · exact Or.inl he
      · exact Or.inr (fun hm => hc ⟨by omega, hm⟩)

/-- what the decimal parsers of the model produce is normalised -/
theorem mk'_norm (n : Int) (e : Nat) : Norm (Dec.mk' n e) := normalize_norm e n e (Nat.le_refl e)

theorem ofInt_norm (n : Int) : Norm ⟨n, 0⟩ := Or.inl rfl

/-- the numbers of the model: integers of the record, literals and decimals -/
def numOf : Json → Option Dec
  | .int n => some ⟨n, 0⟩
  | .flt d => some d
  | _ => none

theorem stringOfJson_num {x : Json} {a : Dec} (h : numOf x = some a) : stringOfJson x = Dec.format a := by
  cases x with
  | int n => simp [numOf] at h; subst h; exact (format_integral n).symm
  | flt d => simp [numOf] at h; subst h; rfl
  | _ => simp [numOf] at h

theorem floatOfJson_num {x : Json} {a : Dec} (h : numOf x = some a) : floatOfJson x = a := by
  cases x with
  | int n => simp [numOf] at h; subst h; rfl
  | flt d => simp [numOf] at h; subst h; rfl
  | _ => simp [numOf] at h

/-- **C12: numbers that are numerically equal compare equal** - and only those: for any two
    numbers of the model, `==` is exact numeric equality. -/
theorem c12_eq_numeric (x y : Json) (a b : Dec) (hx : numOf x = some a) (hy : numOf y = some b)
    (na : Norm a) (nb : Norm b) :
    eql (.json x) (.json y) = Dec.eqv a b := by
  have sx := stringOfJson_num hx
  have sy := stringOfJson_num hy
  have e : eql (.json x) (.json y) = (stringOfJson x == stringOfJson y) := by
    unfold eql
    cases x <;> cases y <;> simp_all [numOf, stringOperand]
  rw [e, sx, sy]
  unfold Dec.eqv
  by_cases hq : a.num * (10 : Int) ^ b.exp = b.num * (10 : Int) ^ a.exp
  · have hab := eqv_norm_eq a b na nb hq
    rw [hab]
    simp only [beq_self_eq_true]
  · have hne : Dec.format a ≠ Dec.format b := fun hf => by
      have := format_inj a b hf
      subst this
      exact hq rfl
    have h1 : (Dec.format a == Dec.format b) = false := beq_eq_false_iff_ne.mpr hne
    have h2 : (a.num * (10 : Int) ^ b.exp == b.num * (10 : Int) ^ a.exp) = false := beq_eq_false_iff_ne.mpr hq
    rw [h1, h2]

/-- **C12: `==` agrees with `>=` and `<=` taken together**, for any two numbers of the model. -/
theorem c12_eq_coherent_numeric (x y : Json) (a b : Dec) (hx : numOf x = some a) (hy : numOf y = some b)
    (na : Norm a) (nb : Norm b) :
    eql (.json x) (.json y) = (geq (.json x) (.json y) && leq (.json x) (.json y)) := by
  rw [c12_eq_numeric x y a b hx hy na nb]
  have fx := floatOfJson_num hx
  have fy := floatOfJson_num hy
  have hg : geq (.json x) (.json y) = Dec.le b a := by
    unfold geq ordOp
    cases x <;> cases y <;> simp_all [numOf, float64Operand, nanVal, nanJson]
  have hl : leq (.json x) (.json y) = Dec.le a b := by
    unfold leq ordOp
    cases x <;> cases y <;> simp_all [numOf, float64Operand, nanVal, nanJson]
  rw [hg, hl]
  unfold Dec.eqv Dec.le
  generalize a.num * (10 : Int) ^ b.exp = X
  generalize b.num * (10 : Int) ^ a.exp = Y
  by_cases h : X = Y
  · rw [h]
    simp only [beq_self_eq_true, Int.le_refl, decide_true, Bool.and_self]
  · have : ¬ (Y ≤ X ∧ X ≤ Y) := fun hc => h (by omega)
    have h0 : (X == Y) = false := beq_eq_false_iff_ne.mpr h
    rw [h0]
    by_cases h1 : Y ≤ X <;> by_cases h2 : X ≤ Y
    · exact absurd ⟨h1, h2⟩ this
    · simp [h1, h2]
    · simp [h1, h2]
    · simp [h1, h2]

/-- not vacuous: 1.5 against 1.50 read from the record (normalised to 1.5), and against 1.25 -/
example : eql (.json (.flt ⟨15, 1⟩)) (.json (.flt (Dec.mk' 150 2))) = true ∧
    eql (.json (.flt ⟨15, 1⟩)) (.json (.flt ⟨125, 2⟩)) = false ∧ Norm ⟨15, 1⟩ ∧ Norm ⟨125, 2⟩ := by
  refine ⟨by decide, by decide, Or.inr (by decide), Or.inr (by decide)⟩

end KsVerif.Proofs.C12Dec
