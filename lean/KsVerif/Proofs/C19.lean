/-
  C19 — emitting assigns unique item identities and counts exactly.
-/
import KsVerif.Sched.Protocols
import KsVerif.Generated.GenAtomicShapes

namespace KsVerif.Proofs.C19
open KsVerif.Sched

/-- Emit calls a task has begun. -/
def begun (n : Nat) (t : ETask) : Nat := n - t.rem
def ind (b : Bool) : Nat := if b then 1 else 0

/-- Invariant of the emit protocol for two goroutines that have `na` and `nb` calls to make. -/
structure Inv (na nb : Nat) (s : EState) : Prop where
  ra : s.a.rem ≤ na
  rb : s.b.rem ≤ nb
  pa : s.a.pc ≤ 2
  pb : s.b.pc ≤ 2
  ba : s.a.pc ≠ 0 → s.a.rem < na
  bb : s.b.pc ≠ 0 → s.b.rem < nb
  matched : s.matched = begun na s.a + begun nb s.b
  idx : s.idx + ind (s.a.pc = 1) + ind (s.b.pc = 1) = begun na s.a + begun nb s.b
  len : s.out.length + ind (s.a.pc ≠ 0) + ind (s.b.pc ≠ 0) = begun na s.a + begun nb s.b
  lt : ∀ v ∈ s.out, v < s.idx
  nodup : s.out.Nodup
  rega : s.a.pc = 2 → s.a.reg < s.idx ∧ s.a.reg ∉ s.out
  regb : s.b.pc = 2 → s.b.reg < s.idx ∧ s.b.reg ∉ s.out
  regab : s.a.pc = 2 → s.b.pc = 2 → s.a.reg ≠ s.b.reg

def swap (s : EState) : EState := { s with a := s.b, b := s.a }

theorem inv_swap {na nb : Nat} {s : EState} (h : Inv na nb s) : Inv nb na (swap s) := by
  obtain ⟨ra, rb, pa, pb, ba, bb, m, i, l, lt, nd, rega, regb, regab⟩ := h
  exact ⟨rb, ra, pb, pa, bb, ba,
    by show s.matched = begun nb s.b + begun na s.a; omega,
    by show s.idx + ind (s.b.pc = 1) + ind (s.a.pc = 1) = begun nb s.b + begun na s.a; omega,
    by show s.out.length + ind (s.b.pc ≠ 0) + ind (s.a.pc ≠ 0) = begun nb s.b + begun na s.a; omega,
    lt, nd, regb, rega, fun h1 h2 => (regab h2 h1).symm⟩

theorem estep_swap (s : EState) (w : Bool) : estep (swap s) w = swap (estep s (!w)) := by
  cases w <;> simp [estep, swap]

theorem inv_step_a {na nb : Nat} {s : EState} (h : Inv na nb s) : Inv na nb (estep s true) := by
  obtain ⟨ra, rb, pa, pb, ba, bb, m, i, l, lt, nd, rega, regb, regab⟩ := h
  simp only [estep, etaskStep, if_true]
  by_cases h0 : s.a.pc = 0
  · by_cases hr : s.a.rem = 0
    · rw [if_pos h0, if_pos hr]
      exact ⟨ra, rb, pa, pb, ba, bb, m, i, l, lt, nd, rega, regb, regab⟩
    · rw [if_pos h0, if_neg hr]
      refine ⟨by simp; omega, rb, by simp, pb, by simp; omega, bb, ?_, ?_, ?_, lt, nd, by simp, regb, by simp⟩
      · simp [begun] at *; omega
      · simp [begun, ind, h0] at *; omega
      · simp [begun, ind, h0] at *; omega
  · by_cases h1 : s.a.pc = 1
    · rw [if_neg h0, if_pos h1]
      have hlt := ba h0
      refine ⟨ra, rb, by simp, pb, by simp; omega, bb, ?_, ?_, ?_, ?_, nd, ?_, ?_, ?_⟩
      · simp [begun] at *; omega
      · simp [begun, ind, h1] at *; omega
      · simp [begun, ind, h1] at *; omega
      · intro v hv; have := lt v hv; simp; omega
      · intro _; simp
        exact fun hc => Nat.lt_irrefl _ (lt _ hc)
      · intro hb; have := regb hb; simp; exact ⟨by omega, this.2⟩
      · intro _ hb; have := (regb hb).1; simp; omega
    · have h2 : s.a.pc = 2 := by omega
      rw [if_neg h0, if_neg h1]
      have hra := rega h2
      refine ⟨ra, rb, by simp, pb, by simp, bb, ?_, ?_, ?_, ?_, ?_, by simp, ?_, by simp⟩
      · simp [begun] at *; omega
      · simp [begun, ind, h2] at *; omega
      · simp [begun, ind, h2] at *; omega
      · intro v hv; simp at hv; rcases hv with hv | hv
        · exact lt v hv
        · subst hv; exact hra.1
      · exact List.nodup_append.mpr ⟨nd, by simp, by
          intro x hx y hy; simp at hy; subst hy; intro hxy; subst hxy; exact hra.2 hx⟩
      · intro hb; have := regb hb
        refine ⟨this.1, ?_⟩
        simp; exact ⟨this.2, fun hc => regab h2 hb hc.symm⟩

theorem inv_step {na nb : Nat} {s : EState} (h : Inv na nb s) (w : Bool) : Inv na nb (estep s w) := by
  cases w
  · have := inv_swap (inv_step_a (inv_swap h))
    rw [estep_swap] at this
    simpa [swap] using this
  · exact inv_step_a h

theorem inv_run {na nb : Nat} (sched : List Bool) : ∀ {s : EState}, Inv na nb s → Inv na nb (erun s sched) := by
  induction sched with
  | nil => intro s h; simpa [erun] using h
  | cons w ws ih => intro s h; simpa [erun] using ih (inv_step h w)

def start (na nb : Nat) : EState := { a := { rem := na }, b := { rem := nb } }

theorem inv_start (na nb : Nat) : Inv na nb (start na nb) := by
  refine ⟨by simp [start], by simp [start], by simp [start], by simp [start], by simp [start],
    by simp [start], by simp [start, begun], by simp [start, begun, ind], by simp [start, begun, ind],
    by simp [start], by simp [start], by simp [start], by simp [start], by simp [start]⟩

/-- **C19.** The two goroutines of a stream make `na` and `nb` Emit calls. For every
    interleaving of their atomic steps (any schedule, any `na`, `nb`), once both are done:
    exactly `na + nb` items were sent, their indices are pairwise distinct, the
    matched-pairs statistic grew by exactly `na + nb`, and so did the stream's item count. -/
theorem c19_emit_exact (na nb : Nat) (sched : List Bool)
    (hfin : (erun (start na nb) sched).finished) :
    let s := erun (start na nb) sched
    s.out.length = na + nb ∧ s.out.Nodup ∧ s.matched = na + nb ∧ s.idx = na + nb := by
  have h := inv_run sched (inv_start na nb)
  obtain ⟨h1, h2, h3, h4⟩ := hfin
  have hm := h.matched; have hi := h.idx; have hl := h.len
  simp only [begun, ind, h1, h2, h3, h4] at hm hi hl
  simp at hi hl
  exact ⟨by omega, h.nodup, by omega, by omega⟩

/-- At every moment (also mid-way) no two sent items share an index. -/
theorem c19_indices_distinct_always (na nb : Nat) (sched : List Bool) :
    (erun (start na nb) sched).out.Nodup :=
  (inv_run sched (inv_start na nb)).nodup

/-- The Emit the code performs today is the protocol above (regenerated shape). -/
theorem c19_emit_shape_atomic : isAtomicEmit Gen.Shapes.emit = true := by decide

/-- Non-vacuity: a complete interleaved run of 2 + 1 calls. -/
example : (erun (start 2 1) [true, false, false, true, true, false, true, true, true]).finished ∧
    (erun (start 2 1) [true, false, false, true, true, false, true, true, true]).out = [1, 0, 2] := by
  unfold EState.finished; decide

/-- every counter update of AppStats in the current tree (regenerated list) is a single atomic
    add: the increments the conservation statements count cannot be lost between a load and a store -/
theorem c19_counter_updates_atomic : Gen.Shapes.statsCounterOps.all Sched.isAtomicCounterOp = true := by decide

end KsVerif.Proofs.C19
