import KsVerif.Kafka.Model

/-!
# C01 for the Kafka dissector model: no stream ends in a panic

The Kafka reader is reflective: `decodeFuncOf` panics on a field kind it cannot decode.  The model makes that an
outcome (`Stop.panic`) reached exactly when the layout selected for (api key, version) holds such a kind.  The
layouts are regenerated from the source on every run (`GenKafkaLayouts`), so the statement below is about
today's structs: no row of the table holds an undecodable kind (decided by the kernel over the whole table), hence
no byte stream - whatever api key, version, sizes or contents it announces - drives either half to `panic`.
-/

namespace KsVerif.Kafka
open KsVerif.Generated.Kafka

/-- every layout of the regenerated table is decodable -/
def layoutsSupported : Bool := layoutTable.all fun r =>
  (match r.2.1 with | some t => !t.hasUnsupported | none => true) &&
  (match r.2.2 with | some t => !t.hasUnsupported | none => true)

theorem layouts_supported : layoutsSupported = true := by decide +kernel

theorem lookup_supported (api ver : Int) :
    (∀ t, (lookupLayout api ver).1 = some t → t.hasUnsupported = false) ∧
    (∀ t, (lookupLayout api ver).2 = some t → t.hasUnsupported = false) := by
  unfold lookupLayout
  cases hf : layoutTable.find? (fun r => r.1.1 == api && r.1.2 == clampVer ver) with
  | none => simp
  | some r =>
    have hmem : r ∈ layoutTable := List.mem_of_find?_eq_some hf
    have hall := layouts_supported
    unfold layoutsSupported at hall
    have hr := (List.all_eq_true.mp hall) r hmem
    simp only [Bool.and_eq_true] at hr
    simp only [Option.map_some, Option.getD_some]
    constructor
    · intro t ht
      have h1 := hr.1
      rw [ht] at h1
      simpa using h1
    · intro t ht
      have h2 := hr.2
      rw [ht] at h2
      simpa using h2

theorem readRequest_np (s : Bytes) : readRequest s ≠ .error .panic := by
  intro h
  unfold readRequest at h
  simp only [] at h
  split at h
  · cases h
  · split at h
    · split at h <;> cases h
    · split at h
      · cases h
      · split at h
        · rename_i ty hl
          split at h
          · rename_i hu
            have := (lookup_supported _ _).1 ty hl
            rw [this] at hu
            cases hu
          · cases h
        · cases h

theorem dissectClient_np (fuel : Nat) (s : Bytes) (acc : List Req) : (dissectClient fuel s acc).2 ≠ .panic := by
  induction fuel generalizing s acc with
  | zero => simp [dissectClient]
  | succ n ih =>
    unfold dissectClient
    cases hr : readRequest s with
    | error e =>
      simp only []
      intro he
      exact readRequest_np s (by rw [hr, he])
    | ok v =>
      obtain ⟨q, rest⟩ := v
      exact ih rest _

theorem readResponse_np (open_ : List Req) (s : Bytes) : readResponse open_ s ≠ .error .panic := by
  intro h
  unfold readResponse at h
  simp only [] at h
  split at h
  · cases h
  · split at h
    · split at h <;> cases h
    · split at h
      · cases h
      · rename_i q _
        split at h
        · rename_i ty hl
          split at h
          · rename_i hu
            have := (lookup_supported _ _).2 ty hl
            rw [this] at hu
            cases hu
          · cases h
        · cases h

theorem dissectServer_np (fuel : Nat) (s : Bytes) (open_ : List Req) (acc : List Item) :
    (dissectServer fuel s open_ acc).2.2 ≠ .panic := by
  induction fuel generalizing s open_ acc with
  | zero => simp [dissectServer]
  | succ n ih =>
    unfold dissectServer
    cases hr : readResponse open_ s with
    | error e =>
      simp only []
      intro he
      exact readResponse_np open_ s (by rw [hr, he])
    | ok v =>
      obtain ⟨it, open', rest⟩ := v
      exact ih rest open' _

/-- C01, Kafka: whatever the two halves carry, neither dissection of the model ends in a panic -/
theorem c01_kafka_no_panic (cb sb : Bytes) (fc fs : Nat) :
    (dissectClient fc cb []).2 ≠ .panic ∧
    (dissectServer fs sb (dissectClient fc cb []).1 []).2.2 ≠ .panic :=
  ⟨dissectClient_np _ _ _, dissectServer_np _ _ _ _⟩

/-- not vacuous: the table has rows, and a stream that announces a known api key is read through its layout -/
example : layoutTable.length > 50 := by decide +kernel

end KsVerif.Kafka
