/-
  C11 for AMQP field values: whatever the reader model returns for a field - from ANY bytes - is a
  value a JSON document can carry: no NaN / ±Inf (json.Marshal rejects them), no timestamp outside
  the years 0 .. 9999 (Time.MarshalJSON rejects those), at any depth of nested arrays and tables.
  Both were defects of the code (an emitted item that could not be serialised); the repairs
  (9a83ac4 and the float counterpart) are what the model's `clampTime` / `finite32` / `finite64`
  stand for, and the correspondence check holds model and code together on extreme values.
-/
import KsVerif.Amqp.Model

namespace KsVerif.Proofs.C11
open KsVerif.Amqp

def timeOk (t : Int) : Bool := decide (-62167219200 ≤ t) && decide (t ≤ 253402300799)

mutual
  /-- a field value that `encoding/json` can serialise -/
  def jsonOkF : FVal → Bool
    | .f32 n => finite32 n
    | .f64 n => finite64 n
    | .time t => timeOk t
    | .arr xs => jsonOkFs xs
    | .table kvs => jsonOkPairs kvs
    | _ => true
  def jsonOkFs : List FVal → Bool
    | [] => true
    | x :: xs => jsonOkF x && jsonOkFs xs
  def jsonOkPairs : List (Bytes × FVal) → Bool
    | [] => true
    | (_, v) :: rest => jsonOkF v && jsonOkPairs rest
end

theorem clampTime_ok (t : Int) : timeOk (clampTime t) = true := by
  unfold clampTime timeOk
  split <;> simp <;> omega

theorem c11_amqp_fields_json_ok : ∀ (fuel : Nat),
    (∀ st v st', readField fuel st = .ok (v, st') → jsonOkF v = true) ∧
    (∀ st vs st', readArrayItems fuel st = .ok (vs, st') → jsonOkFs vs = true) ∧
    (∀ st t st', readTable fuel st = .ok (t, st') → jsonOkPairs t = true) ∧
    (∀ st t, readPairs fuel st = .ok t → jsonOkPairs t = true) := by
  intro fuel
  induction fuel with
  | zero =>
    refine ⟨?_, ?_, ?_, ?_⟩ <;> intros <;> simp_all [readField, readArrayItems, readTable, readPairs, fail]
  | succ n ih =>
    obtain ⟨ihF, ihA, ihT, ihP⟩ := ih
    refine ⟨?_, ?_, ?_, ?_⟩
    · intro st v st' h
      unfold readField at h
      split at h
      · cases h
      · rename_i typ st1 _
        by_cases c116 : typ = 116
        · rw [if_pos c116] at h
          repeat' (split at h)
          all_goals (try (split at h))
          all_goals (try (split at h))
          all_goals (try (simp only [fail] at h))
          all_goals (try (cases h))
          all_goals (try rfl)
          all_goals (try (simp only [jsonOkF]; assumption))
          all_goals (try (simp only [jsonOkF]; exact clampTime_ok _))
          all_goals (try (simp only [jsonOkF]; exact ihA _ _ _ ‹_›))
          all_goals (try (simp only [jsonOkF]; exact ihT _ _ _ ‹_›))
        rw [if_neg c116] at h
        by_cases c98 : typ = 98
        · rw [if_pos c98] at h
          repeat' (split at h)
          all_goals (try (split at h))
          all_goals (try (split at h))
          all_goals (try (simp only [fail] at h))
          all_goals (try (cases h))
          all_goals (try rfl)
          all_goals (try (simp only [jsonOkF]; assumption))
          all_goals (try (simp only [jsonOkF]; exact clampTime_ok _))
          all_goals (try (simp only [jsonOkF]; exact ihA _ _ _ ‹_›))
          all_goals (try (simp only [jsonOkF]; exact ihT _ _ _ ‹_›))
        rw [if_neg c98] at h
        by_cases c115 : typ = 115
        · rw [if_pos c115] at h
          repeat' (split at h)
          all_goals (try (split at h))
          all_goals (try (split at h))
          all_goals (try (simp only [fail] at h))
          all_goals (try (cases h))
          all_goals (try rfl)
          all_goals (try (simp only [jsonOkF]; assumption))
          all_goals (try (simp only [jsonOkF]; exact clampTime_ok _))
          all_goals (try (simp only [jsonOkF]; exact ihA _ _ _ ‹_›))
          all_goals (try (simp only [jsonOkF]; exact ihT _ _ _ ‹_›))
        rw [if_neg c115] at h
        by_cases c73 : typ = 73
        · rw [if_pos c73] at h
          repeat' (split at h)
          all_goals (try (split at h))
          all_goals (try (split at h))
          all_goals (try (simp only [fail] at h))
          all_goals (try (cases h))
          all_goals (try rfl)
          all_goals (try (simp only [jsonOkF]; assumption))
          all_goals (try (simp only [jsonOkF]; exact clampTime_ok _))
          all_goals (try (simp only [jsonOkF]; exact ihA _ _ _ ‹_›))
          all_goals (try (simp only [jsonOkF]; exact ihT _ _ _ ‹_›))
        rw [if_neg c73] at h
        by_cases c108 : typ = 108
        · rw [if_pos c108] at h
          repeat' (split at h)
          all_goals (try (split at h))
          all_goals (try (split at h))
          all_goals (try (simp only [fail] at h))
          all_goals (try (cases h))
          all_goals (try rfl)
          all_goals (try (simp only [jsonOkF]; assumption))
          all_goals (try (simp only [jsonOkF]; exact clampTime_ok _))
          all_goals (try (simp only [jsonOkF]; exact ihA _ _ _ ‹_›))
          all_goals (try (simp only [jsonOkF]; exact ihT _ _ _ ‹_›))
        rw [if_neg c108] at h
        by_cases c102 : typ = 102
        · rw [if_pos c102] at h
          repeat' (split at h)
          all_goals (try (split at h))
          all_goals (try (split at h))
          all_goals (try (simp only [fail] at h))
          all_goals (try (cases h))
          all_goals (try rfl)
          all_goals (try (simp only [jsonOkF]; assumption))
          all_goals (try (simp only [jsonOkF]; exact clampTime_ok _))
          all_goals (try (simp only [jsonOkF]; exact ihA _ _ _ ‹_›))
          all_goals (try (simp only [jsonOkF]; exact ihT _ _ _ ‹_›))
        rw [if_neg c102] at h
        by_cases c100 : typ = 100
        · rw [if_pos c100] at h
          repeat' (split at h)
          all_goals (try (split at h))
          all_goals (try (split at h))
          all_goals (try (simp only [fail] at h))
          all_goals (try (cases h))
          all_goals (try rfl)
          all_goals (try (simp only [jsonOkF]; assumption))
          all_goals (try (simp only [jsonOkF]; exact clampTime_ok _))
          all_goals (try (simp only [jsonOkF]; exact ihA _ _ _ ‹_›))
          all_goals (try (simp only [jsonOkF]; exact ihT _ _ _ ‹_›))
        rw [if_neg c100] at h
        by_cases c68 : typ = 68
        · rw [if_pos c68] at h
          repeat' (split at h)
          all_goals (try (split at h))
          all_goals (try (split at h))
          all_goals (try (simp only [fail] at h))
          all_goals (try (cases h))
          all_goals (try rfl)
          all_goals (try (simp only [jsonOkF]; assumption))
          all_goals (try (simp only [jsonOkF]; exact clampTime_ok _))
          all_goals (try (simp only [jsonOkF]; exact ihA _ _ _ ‹_›))
          all_goals (try (simp only [jsonOkF]; exact ihT _ _ _ ‹_›))
        rw [if_neg c68] at h
        by_cases c83 : typ = 83
        · rw [if_pos c83] at h
          repeat' (split at h)
          all_goals (try (split at h))
          all_goals (try (split at h))
          all_goals (try (simp only [fail] at h))
          all_goals (try (cases h))
          all_goals (try rfl)
          all_goals (try (simp only [jsonOkF]; assumption))
          all_goals (try (simp only [jsonOkF]; exact clampTime_ok _))
          all_goals (try (simp only [jsonOkF]; exact ihA _ _ _ ‹_›))
          all_goals (try (simp only [jsonOkF]; exact ihT _ _ _ ‹_›))
        rw [if_neg c83] at h
        by_cases c65 : typ = 65
        · rw [if_pos c65] at h
          split at h
          · cases h
          · dsimp only at h
            generalize hres : readArrayItems n _ = res at h
            cases res with
            | error f => cases h
            | ok p =>
              obtain ⟨xs, w'⟩ := p
              cases h
              simp only [jsonOkF]
              exact ihA _ _ _ hres
        rw [if_neg c65] at h
        by_cases c84 : typ = 84
        · rw [if_pos c84] at h
          repeat' (split at h)
          all_goals (try (split at h))
          all_goals (try (split at h))
          all_goals (try (simp only [fail] at h))
          all_goals (try (cases h))
          all_goals (try rfl)
          all_goals (try (simp only [jsonOkF]; assumption))
          all_goals (try (simp only [jsonOkF]; exact clampTime_ok _))
          all_goals (try (simp only [jsonOkF]; exact ihA _ _ _ ‹_›))
          all_goals (try (simp only [jsonOkF]; exact ihT _ _ _ ‹_›))
        rw [if_neg c84] at h
        by_cases c70 : typ = 70
        · rw [if_pos c70] at h
          repeat' (split at h)
          all_goals (try (split at h))
          all_goals (try (split at h))
          all_goals (try (simp only [fail] at h))
          all_goals (try (cases h))
          all_goals (try rfl)
          all_goals (try (simp only [jsonOkF]; assumption))
          all_goals (try (simp only [jsonOkF]; exact clampTime_ok _))
          all_goals (try (simp only [jsonOkF]; exact ihA _ _ _ ‹_›))
          all_goals (try (simp only [jsonOkF]; exact ihT _ _ _ ‹_›))
        rw [if_neg c70] at h
        by_cases c120 : typ = 120
        · rw [if_pos c120] at h
          split at h
          · cases h
          · by_cases hneg : toSigned 4 ‹Nat› < 0
            · rw [if_pos hneg] at h; cases h
            · rw [if_neg hneg] at h
              generalize readBytesN _ _ = res at h
              cases res with
              | error f => cases h
              | ok p => obtain ⟨b, w'⟩ := p; cases h; rfl
        rw [if_neg c120] at h
        by_cases c86 : typ = 86
        · rw [if_pos c86] at h
          repeat' (split at h)
          all_goals (try (split at h))
          all_goals (try (split at h))
          all_goals (try (simp only [fail] at h))
          all_goals (try (cases h))
          all_goals (try rfl)
          all_goals (try (simp only [jsonOkF]; assumption))
          all_goals (try (simp only [jsonOkF]; exact clampTime_ok _))
          all_goals (try (simp only [jsonOkF]; exact ihA _ _ _ ‹_›))
          all_goals (try (simp only [jsonOkF]; exact ihT _ _ _ ‹_›))
        rw [if_neg c86] at h
        simp only [fail] at h
        cases h
    · intro st vs st' h
      simp only [readArrayItems] at h
      repeat' (split at h)
      all_goals first
        | (simp only [Except.ok.injEq, Prod.mk.injEq] at h
           obtain ⟨rfl, _⟩ := h
           first
             | rfl
             | (simp only [jsonOkFs, Bool.and_eq_true]; exact ⟨ihF _ _ _ ‹_›, ihA _ _ _ ‹_›⟩))
        | simp_all
    · intro st t st' h
      simp only [readTable] at h
      repeat' (split at h)
      all_goals first
        | (simp only [Except.ok.injEq, Prod.mk.injEq] at h
           obtain ⟨rfl, _⟩ := h
           exact ihP _ _ ‹_›)
        | simp_all
    · intro st t h
      simp only [readPairs] at h
      repeat' (split at h)
      all_goals first
        | (simp only [Except.ok.injEq] at h
           subst h
           first
             | rfl
             | (simp only [jsonOkPairs, Bool.and_eq_true]; exact ⟨ihF _ _ _ ‹_›, ihP _ _ ‹_›⟩))
        | simp_all

/-- **every field value the AMQP reader returns, on any input, can be serialised** -/
theorem c11_amqp_field_serialisable (fuel : Nat) (st st' : St) (v : FVal)
    (h : readField fuel st = .ok (v, st')) : jsonOkF v = true :=
  (c11_amqp_fields_json_ok fuel).1 st v st' h

/-- non-vacuity: the bytes `d` + NaN are read (as no value), `T` + a far-future second count too -/
example : jsonOkF (.arr [.f32 0, .time 5, .table [([1], .f64 0)]]) = true := by decide

end KsVerif.Proofs.C11
