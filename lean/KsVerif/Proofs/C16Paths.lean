/-
  C16 — instances of `c16_eq_query_true` for the remaining string-valued summary and method
  queries that the AMQP and Kafka dissectors build (`amqp/main.go` Summarize,
  `kafka/main.go` Summarize): for every value, the query `<path> == "<value>"` is true of
  every record that holds the value at that path.  The side conditions (the path parses to
  the expected segments, its last segment is not a helper name) are discharged by kernel
  evaluation of the models of the path parser and of Precompute.
-/
import KsVerif.Proofs.C16

namespace KsVerif.Proofs.C16
open KsVerif.Kfl

theorem path_request_replyText : Path.parse ("." ++ "request.replyText") = .ok [.child "request", .child "replyText"] := by decide
theorem path_request_virtualHost : Path.parse ("." ++ "request.virtualHost") = .ok [.child "request", .child "virtualHost"] := by decide
theorem path_request_consumerTag : Path.parse ("." ++ "request.consumerTag") = .ok [.child "request", .child "consumerTag"] := by decide
theorem path_request_channelMax : Path.parse ("." ++ "request.channelMax") = .ok [.child "request", .child "channelMax"] := by decide
theorem path_request_apiKeyName : Path.parse ("." ++ "request.apiKeyName") = .ok [.child "request", .child "apiKeyName"] := by decide
theorem path_request_clientID : Path.parse ("." ++ "request.clientID") = .ok [.child "request", .child "clientID"] := by decide

/-- AMQP exchange declare / basic publish / basic deliver: `request.exchange == "<exchange>"`. -/
theorem c16_amqp_exchange_query (c : String) (entry : Json)
    (h : Path.getAllOf [.child "request", .child "exchange"] entry = [.str c]) :
    (eval (precompute (eqStrQuery "request.exchange" c)).node entry).1 = true :=
  c16_eq_query_true _ _ c entry path_request_exchange (by decide) (by decide) h

/-- AMQP queue declare / queue bind / basic consume: `request.queue == "<queue>"`. -/
theorem c16_amqp_queue_query (c : String) (entry : Json)
    (h : Path.getAllOf [.child "request", .child "queue"] entry = [.str c]) :
    (eval (precompute (eqStrQuery "request.queue" c)).node entry).1 = true :=
  c16_eq_query_true _ _ c entry path_request_queue (by decide) (by decide) h

/-- AMQP connection close: `request.replyText == "<text>"`. -/
theorem c16_amqp_replyText_query (c : String) (entry : Json)
    (h : Path.getAllOf [.child "request", .child "replyText"] entry = [.str c]) :
    (eval (precompute (eqStrQuery "request.replyText" c)).node entry).1 = true :=
  c16_eq_query_true _ _ c entry path_request_replyText (by decide) (by decide) h

/-- AMQP connection open: `request.virtualHost == "<vhost>"`. -/
theorem c16_amqp_virtualHost_query (c : String) (entry : Json)
    (h : Path.getAllOf [.child "request", .child "virtualHost"] entry = [.str c]) :
    (eval (precompute (eqStrQuery "request.virtualHost" c)).node entry).1 = true :=
  c16_eq_query_true _ _ c entry path_request_virtualHost (by decide) (by decide) h

/-- AMQP basic consume-ok / cancel: `request.consumerTag == "<tag>"`. -/
theorem c16_amqp_consumerTag_query (c : String) (entry : Json)
    (h : Path.getAllOf [.child "request", .child "consumerTag"] entry = [.str c]) :
    (eval (precompute (eqStrQuery "request.consumerTag" c)).node entry).1 = true :=
  c16_eq_query_true _ _ c entry path_request_consumerTag (by decide) (by decide) h

/-- AMQP connection tune / tune-ok: `request.channelMax == "<n>"`, the value being the
    string the dissector stores. -/
theorem c16_amqp_channelMax_query (c : String) (entry : Json)
    (h : Path.getAllOf [.child "request", .child "channelMax"] entry = [.str c]) :
    (eval (precompute (eqStrQuery "request.channelMax" c)).node entry).1 = true :=
  c16_eq_query_true _ _ c entry path_request_channelMax (by decide) (by decide) h

/-- Kafka: `request.apiKeyName == "<api>"`. -/
theorem c16_kafka_method_query (c : String) (entry : Json)
    (h : Path.getAllOf [.child "request", .child "apiKeyName"] entry = [.str c]) :
    (eval (precompute (eqStrQuery "request.apiKeyName" c)).node entry).1 = true :=
  c16_eq_query_true _ _ c entry path_request_apiKeyName (by decide) (by decide) h

/-- Kafka ApiVersions: `request.clientID == "<client id>"`. -/
theorem c16_kafka_clientID_query (c : String) (entry : Json)
    (h : Path.getAllOf [.child "request", .child "clientID"] entry = [.str c]) :
    (eval (precompute (eqStrQuery "request.clientID" c)).node entry).1 = true :=
  c16_eq_query_true _ _ c entry path_request_clientID (by decide) (by decide) h

/-- Non-vacuity: a record that satisfies the hypothesis, with a value holding a space. -/
example : Path.getAllOf [.child "request", .child "exchange"]
    (.obj [("request", .obj [("exchange", .str "amq topic"), ("queue", .str "q")])]) = [.str "amq topic"] := by rfl

end KsVerif.Proofs.C16
