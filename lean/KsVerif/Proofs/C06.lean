/-
  C06 — Kafka requests and responses are decoded exactly and stay in frame.

  Model: `KsVerif.Kafka.decode` (the reflective decoder of decode.go) over
  `Generated.Kafka.layoutTable`, the layouts the running dissector selects per (api key,
  version), re-extracted on every run; `readRequest` / `readResponse` (framing, header,
  `discardAll`).  Reference: `Generated.KafkaProtocol.protoTable`, the wire schemas of
  github.com/segmentio/kafka-go/protocol, and `Spec.enc`, the encoder over them.

  Theorems
  * in frame (`c06_body_in_frame`, `c06_request_in_frame`, `c06_response_in_frame`): whatever
    the layout and whatever the bytes, decoding a body and discarding the rest consumes
    exactly the declared size — for every `Ty`, by induction.
  * exactness (`c06_decode_enc`, `c06_compat_sound`, `c06_exact`): a layout with the same
    normal form as the reference schema decodes the encoding of every conforming value to
    that value's fields, and leaves the stream at the end of the encoding - record batches
    included (`readVarInt_enc`: zigzag LEB128 varints over the whole int64 range;
    `decodeRecord_enc`: keys, values and headers of any length, null and empty).
  * the table (`c06_table`): every (api, version, direction) of the reference is either
    wire-equivalent to the selected layout or listed in `deviations` (the known findings).
-/
import KsVerif.Kafka.Compat

namespace KsVerif.Proofs.C06
open KsVerif KsVerif.Kafka

/-! ### in frame -/

/-- `d` is `d0` after consuming `c` bytes of the message, never more than it holds -/
def Within (d0 d : D) : Prop :=
  ∃ c, c ≤ d0.remain ∧ d.stream = d0.stream.drop c ∧ d.remain = d0.remain - c

theorem Within.refl (d : D) : Within d d := ⟨0, Nat.zero_le _, by simp, by simp⟩

theorem Within.trans {a b c : D} (h1 : Within a b) (h2 : Within b c) : Within a c := by
  obtain ⟨x, hx, hs1, hr1⟩ := h1
  obtain ⟨y, hy, hs2, hr2⟩ := h2
  refine ⟨x + y, by omega, ?_, by omega⟩
  rw [hs2, hs1, List.drop_drop]

theorem within_consume (d : D) (k : Nat) (hk : k ≤ d.remain) (e : Bool) :
    Within d { stream := d.stream.drop k, remain := d.remain - k, err := e } :=
  ⟨k, hk, rfl, rfl⟩

theorem discardAll_within (d : D) : Within d d.discardAll := by
  unfold D.discardAll
  exact ⟨min d.remain d.stream.length, Nat.min_le_left _ _, rfl, rfl⟩

theorem fail_within (d : D) : Within d d.fail := by
  unfold D.fail
  split
  · exact Within.refl d
  · obtain ⟨c, hc, hs, hr⟩ := discardAll_within d
    exact ⟨c, hc, hs, hr⟩

theorem readFull_within (k : Nat) (d : D) : Within d (readFull k d).2 := by
  unfold readFull
  split
  · exact Within.refl d
  · split
    · exact Within.refl d
    · dsimp only
      split
      · next h =>
        refine ⟨k, ?_, rfl, rfl⟩
        have : min k (min d.remain d.stream.length) ≤ d.remain :=
          Nat.le_trans (Nat.min_le_right _ _) (Nat.min_le_left _ _)
        omega
      · refine Within.trans (b := { d with stream := d.stream.drop (min k (min d.remain d.stream.length)),
                                           remain := d.remain - min k (min d.remain d.stream.length) }) ?_ (fail_within _)
        exact ⟨_, Nat.le_trans (Nat.min_le_right _ _) (Nat.min_le_left _ _), rfl, rfl⟩

theorem readInt_within (k : Nat) (d : D) : Within d (readInt k d).2 := by
  unfold readInt
  have := readFull_within k d
  split <;> simp_all

theorem readByte_within (d : D) : Within d (readByte d).2 := by
  unfold readByte
  have := readFull_within 1 d
  split <;> simp_all

theorem readN_within (n : Nat) (d : D) : Within d (readN n d).2 := by
  unfold readN
  simp only
  split
  · exact Within.refl d
  · have hle : min (min n d.remain) d.stream.length ≤ d.remain :=
      Nat.le_trans (Nat.min_le_left _ _) (Nat.min_le_right _ _)
    split
    · exact ⟨_, hle, rfl, rfl⟩
    · exact Within.trans (b := { d with stream := d.stream.drop (min (min n d.remain) d.stream.length),
                                        remain := d.remain - min (min n d.remain) d.stream.length })
        ⟨_, hle, rfl, rfl⟩ (fail_within _)

theorem readString_within (d : D) : Within d (readString d).2 := by
  unfold readString
  have h1 := readInt_within 2 d
  simp only
  split
  · exact h1
  · exact Within.trans h1 (readN_within _ _)

theorem readBytesV_within (d : D) : Within d (readBytesV d).2 := by
  unfold readBytesV
  have h1 := readInt_within 4 d
  simp only
  split
  · exact h1
  · exact Within.trans h1 (readN_within _ _)

theorem varLoop_within : ∀ (n x s : Nat) (d : D), Within d (varLoop n x s d).2
  | 0, _, _, d => by unfold varLoop; exact Within.refl d
  | n + 1, x, s, d => by
    unfold varLoop
    have h1 := readByte_within d
    simp only
    split
    · exact h1
    · exact Within.trans h1 (varLoop_within n _ _ _)

theorem readVarInt_within (d : D) : Within d (readVarInt d).2 := by
  unfold readVarInt
  have h := varLoop_within (min 11 d.remain) 0 0 d
  split
  · next heq => rw [heq] at h; exact h
  · next heq => rw [heq] at h; exact Within.trans h (fail_within _)

theorem readVarString_within (n : Int) (d : D) : Within d (readVarString n d).2 := by
  unfold readVarString
  split
  · exact Within.refl d
  · exact readN_within _ _

theorem repeatWhile_within (f : D → Val × D) (hf : ∀ d, Within d (f d).2) :
    ∀ (n : Nat) (d : D), Within d (repeatWhile f n d).2
  | 0, d => by unfold repeatWhile; exact Within.refl d
  | n + 1, d => by
    unfold repeatWhile
    split
    · exact Within.trans (hf d) (repeatWhile_within f hf n _)
    · exact Within.refl d

theorem decodeHeader_within (d : D) : Within d (decodeHeader d).2 := by
  unfold decodeHeader
  dsimp only
  refine Within.trans ?_ (readVarString_within _ _)
  refine Within.trans ?_ (readVarInt_within _)
  refine Within.trans ?_ (readVarString_within _ _)
  exact readVarInt_within d

theorem decodeRecord_within (d : D) : Within d (decodeRecord d).2 := by
  unfold decodeRecord
  dsimp only
  refine Within.trans ?_ (repeatWhile_within _ decodeHeader_within _ _)
  refine Within.trans ?_ (readVarInt_within _)
  refine Within.trans ?_ (readVarString_within _ _)
  refine Within.trans ?_ (readVarInt_within _)
  refine Within.trans ?_ (readVarString_within _ _)
  refine Within.trans ?_ (readVarInt_within _)
  refine Within.trans ?_ (readVarInt_within _)
  refine Within.trans ?_ (readVarInt_within _)
  refine Within.trans ?_ (readInt_within 1 _)
  exact readVarInt_within d

theorem decodePrim_within (p : Prim) (d : D) : Within d (decodePrim p d).2 := by
  cases p <;> unfold decodePrim
  · exact readByte_within d
  · exact readInt_within 1 d
  · exact readInt_within 2 d
  · exact readInt_within 4 d
  · exact readInt_within 8 d
  · exact readString_within d
  · exact readBytesV_within d
  · exact decodeRecord_within d
  · exact readString_within d
  · exact Within.refl d

theorem repeatDec_within (f : D → Val × D) (z : Val) (hf : ∀ d, Within d (f d).2) :
    ∀ (n : Nat) (d : D), Within d (repeatDec f z n d).2
  | 0, d => by unfold repeatDec; exact Within.refl d
  | n + 1, d => by
    unfold repeatDec
    split
    · exact Within.trans (hf d) (repeatDec_within f z hf n _)
    · exact Within.refl d

/-- every layout, every state: decoding never leaves the message -/
theorem decode_within : ∀ (ty : Ty) (d : D), Within d (decode ty d).2
  | .prim p, d => by unfold decode; exact decodePrim_within p d
  | .unit, d => by unfold decode; exact Within.refl d
  | .seq _ a rest, d => by
    unfold decode
    exact Within.trans (decode_within a d) (decode_within rest _)
  | .arr e, d => by
    unfold decode
    have h1 := readInt_within 4 d
    simp only
    split
    · exact h1
    · exact Within.trans h1 (repeatDec_within _ _ (decode_within e) _ _)

theorem within_discardAll {d0 d : D} (h : Within d0 d) (hlen : d0.remain ≤ d0.stream.length) :
    d.discardAll.stream = d0.stream.drop d0.remain := by
  obtain ⟨c, hc, hs, hr⟩ := h
  unfold D.discardAll
  simp only
  rw [hs, hr, List.length_drop, List.drop_drop]
  congr 1
  omega

/-- **In frame, bodies**: for every layout and every content, a body decoded from a message
    that is entirely on the stream, followed by `discardAll`, ends exactly at the declared size. -/
theorem c06_body_in_frame (ty : Ty) (d : D) (hlen : d.remain ≤ d.stream.length) :
    (decode ty d).2.discardAll.stream = d.stream.drop d.remain :=
  within_discardAll (decode_within ty d) hlen

theorem readInt4_head (s : Bytes) (h : 4 ≤ s.length) :
    (readInt 4 { stream := s, remain := 4 }).2 = { stream := s.drop 4, remain := 0, err := false } := by
  unfold readInt readFull
  have : min 4 (min 4 s.length) = 4 := by omega
  simp [this]

/-- the header of a request and its body stay inside the declared size -/
theorem request_chain (d0 : D) (ty : Ty) :
    Within d0 (decode ty (readString (readInt 4 (readInt 2 (readInt 2 d0).2).2).2).2).2 := by
  refine Within.trans ?_ (decode_within _ _)
  refine Within.trans ?_ (readString_within _)
  refine Within.trans ?_ (readInt_within 4 _)
  refine Within.trans ?_ (readInt_within 2 _)
  exact readInt_within 2 d0

theorem request_chain_hdr (d0 : D) :
    Within d0 (readString (readInt 4 (readInt 2 (readInt 2 d0).2).2).2).2 := by
  refine Within.trans ?_ (readString_within _)
  refine Within.trans ?_ (readInt_within 4 _)
  refine Within.trans ?_ (readInt_within 2 _)
  exact readInt_within 2 d0

/-- **In frame, requests**: whatever API, version, layout and content, a request that Dissect
    accepts and that is entirely on the stream is consumed to exactly 4 + size bytes - the next
    message is read from the right offset (also when the API has no layout: `layout = none`). -/
theorem c06_request_in_frame (s : Bytes) (q : Req) (rest : Bytes)
    (h : readRequest s = .ok (q, rest)) (hlen : 4 + q.size.toNat ≤ s.length) :
    rest = s.drop (4 + q.size.toNat) := by
  unfold readRequest at h
  dsimp only at h
  have h4 : 4 ≤ s.length := by omega
  rw [readInt4_head s h4] at h
  generalize (lookupLayout _ _).1 = lay at h
  split at h
  · cases h
  · split at h
    · split at h <;> cases h
    · split at h
      · cases h
      · split at h
        · split at h
          · cases h
          · injection h with h
            injection h with hq hr
            subst hq
            rw [← hr]
            dsimp only at hlen ⊢
            rw [within_discardAll (request_chain _ _) (by simp only [List.length_drop]; omega)]
            simp [List.drop_drop]
        · simp only [Except.ok.injEq, Prod.mk.injEq] at h
          obtain ⟨hq, hr⟩ := h
          subst hq
          rw [← hr]
          dsimp only at hlen ⊢
          rw [within_discardAll (request_chain_hdr _) (by simp only [List.length_drop]; omega)]
          simp [List.drop_drop]

/-- **In frame, responses**: the same for a response, whatever request it answers. -/
theorem c06_response_in_frame (open_ : List Req) (s : Bytes) (it : Option Item) (open' : List Req) (rest : Bytes)
    (size : Int) (hsize : size = (readInt 4 { stream := s, remain := 4 }).1)
    (h : readResponse open_ s = .ok (it, open', rest)) (hlen : 4 + size.toNat ≤ s.length) :
    rest = s.drop (4 + size.toNat) := by
  unfold readResponse at h
  dsimp only at h
  have h4 : 4 ≤ s.length := by omega
  rw [← hsize, readInt4_head s h4] at h
  generalize (open_.find? _) = found at h
  split at h
  · cases h
  · split at h
    · split at h <;> cases h
    · split at h
      · cases h
      · split at h
        · split at h
          · cases h
          · injection h with h
            injection h with _ h
            injection h with _ hr
            rw [← hr]
            rw [within_discardAll (Within.trans (readInt_within 4 _) (decode_within _ _))
              (by simp only [List.length_drop]; omega)]
            simp [List.drop_drop]
        · injection h with h
          injection h with _ h
          injection h with _ hr
          rw [← hr]
          rw [within_discardAll (readInt_within 4 _) (by simp only [List.length_drop]; omega)]
          simp [List.drop_drop]

/-! ### exactness: big-endian integers -/

open KsVerif.Kafka.Spec

theorem foldl_acc (rest : Bytes) : ∀ acc : Nat,
    rest.foldl (fun a b => a * 256 + b.toNat) acc = acc * 256 ^ rest.length + rest.foldl (fun a b => a * 256 + b.toNat) 0 := by
  induction rest with
  | nil => intro acc; simp
  | cons b bs ih =>
    intro acc
    simp only [List.foldl_cons, List.length_cons]
    rw [ih (acc * 256 + b.toNat), ih (0 * 256 + b.toNat), Nat.pow_succ]
    simp only [Nat.zero_mul, Nat.zero_add, Nat.add_mul, Nat.mul_assoc, Nat.add_assoc]
    congr 2
    rw [Nat.mul_comm 256]

theorem beNat_cons (d : UInt8) (rest : Bytes) : beNat (d :: rest) = d.toNat * 256 ^ rest.length + beNat rest := by
  unfold beNat
  simp only [List.foldl_cons, Nat.zero_mul, Nat.zero_add]
  exact foldl_acc rest d.toNat

theorem be_succ (n v : Nat) : be (n + 1) v = UInt8.ofNat ((v / 256 ^ n) % 256) :: be n v := by
  unfold be
  simp [List.range_succ]

theorem be_length (n v : Nat) : (be n v).length = n := by simp [be]

theorem beNat_be (n v : Nat) : beNat (be n v) = v % 256 ^ n := by
  induction n with
  | zero => simp [be, beNat, Nat.mod_one]
  | succ n ih =>
    rw [be_succ, beNat_cons, be_length, ih]
    have hlt : (v / 256 ^ n) % 256 < 256 := Nat.mod_lt _ (by decide)
    have : (UInt8.ofNat ((v / 256 ^ n) % 256)).toNat = (v / 256 ^ n) % 256 := by
      simp [Nat.mod_eq_of_lt hlt]
    rw [this, Nat.pow_succ, Nat.mod_mul]
    rw [Nat.mul_comm, Nat.add_comm]

theorem encInt_length (k : Nat) (i : Int) : (encInt k i).length = k := by simp [encInt, be_length]

/-- reading exactly the bytes that are there -/
theorem readFull_exact (bs rest : Bytes) (k : Nat) :
    readFull bs.length { stream := bs ++ rest, remain := bs.length + k, err := false } =
      (some bs, { stream := rest, remain := k, err := false }) := by
  unfold readFull
  by_cases h : bs.length = 0
  · have : bs = [] := List.length_eq_zero_iff.mp h
    subst this; simp
  · have hmin : min bs.length (min (bs.length + k) (bs ++ rest).length) = bs.length := by
      simp only [List.length_append]; omega
    simp [h]

/-- **Integers round-trip** at the four widths of the protocol. -/
theorem readInt_enc (w : Nat) (hw : w = 1 ∨ w = 2 ∨ w = 4 ∨ w = 8) (i : Int) (hi : inRange (8 * w) i = true)
    (rest : Bytes) (k : Nat) :
    readInt w { stream := encInt w i ++ rest, remain := w + k, err := false } =
      (i, { stream := rest, remain := k, err := false }) := by
  unfold readInt
  have hl := encInt_length w i
  have := readFull_exact (encInt w i) rest k
  rw [hl] at this
  rw [this]
  simp only [Prod.mk.injEq, and_true]
  unfold encInt
  rw [beNat_be]
  unfold inRange at hi
  simp only [Bool.and_eq_true, decide_eq_true_eq] at hi
  unfold toSigned
  rcases hw with rfl | rfl | rfl | rfl <;> simp at hi ⊢ <;> omega

theorem readN_exact (bs rest : Bytes) (k : Nat) :
    readN bs.length { stream := bs ++ rest, remain := bs.length + k, err := false } =
      (bs, { stream := rest, remain := k, err := false }) := by
  unfold readN
  have h1 : min bs.length (bs.length + k) = bs.length := by omega
  simp [h1]

/-- the state in front of an encoding followed by `rest`, with `k` more bytes in the message -/
def before (bs rest : Bytes) (k : Nat) : D := { stream := bs ++ rest, remain := bs.length + k, err := false }
def after (rest : Bytes) (k : Nat) : D := { stream := rest, remain := k, err := false }

theorem before_append (a b rest : Bytes) (k : Nat) :
    before (a ++ b) rest k = before a (b ++ rest) (b.length + k) := by
  simp [before, List.append_assoc, Nat.add_assoc]

theorem before_nil (rest : Bytes) (k : Nat) : before [] rest k = after rest k := by simp [before, after]

theorem readInt_before (w : Nat) (hw : w = 1 ∨ w = 2 ∨ w = 4 ∨ w = 8) (i : Int) (hi : inRange (8 * w) i = true)
    (rest : Bytes) (k : Nat) : readInt w (before (encInt w i) rest k) = (i, after rest k) := by
  have := readInt_enc w hw i hi rest k
  simpa [before, after, encInt_length] using this

theorem readN_before (bs rest : Bytes) (k : Nat) : readN bs.length (before bs rest k) = (bs, after rest k) :=
  readN_exact bs rest k

theorem readString_before (b rest : Bytes) (k : Nat) (hb : b.length < 32768) :
    readString (before (encInt 2 b.length ++ b) rest k) = (.str b, after rest k) := by
  unfold readString
  rw [before_append, readInt_before 2 (by simp) _ (by unfold inRange; simp; omega)]
  simp only
  have : ¬ ((b.length : Int) < 0) := by omega
  simp only [this, if_false, Int.toNat_natCast]
  have hN := readN_before b rest k
  have hb' : after (b ++ rest) (b.length + k) = before b rest k := by simp [before, after]
  rw [hb', hN]

theorem readString_null (rest : Bytes) (k : Nat) :
    readString (before (encInt 2 (-1)) rest k) = (.str [], after rest k) := by
  unfold readString
  rw [readInt_before 2 (by simp) _ (by unfold inRange; simp)]
  simp

theorem readBytes_before (b rest : Bytes) (k : Nat) (hb : b.length < 2 ^ 31) :
    readBytesV (before (encInt 4 b.length ++ b) rest k) = (.bytes (some b), after rest k) := by
  unfold readBytesV
  rw [before_append, readInt_before 4 (by simp) _ (by unfold inRange; simp; omega)]
  simp only
  have : ¬ ((b.length : Int) < 0) := by omega
  simp only [this, if_false, Int.toNat_natCast]
  have hN := readN_before b rest k
  have hb' : after (b ++ rest) (b.length + k) = before b rest k := by simp [before, after]
  rw [hb', hN]

theorem readBytes_null (rest : Bytes) (k : Nat) :
    readBytesV (before (encInt 4 (-1)) rest k) = (.bytes none, after rest k) := by
  unfold readBytesV
  rw [readInt_before 4 (by simp) _ (by unfold inRange; simp)]
  simp

theorem readByte_before (x : UInt8) (rest : Bytes) (k : Nat) :
    readByte (before [x] rest k) = (x.toNat, after rest k) := by
  unfold readByte before after
  have := readFull_exact [x] rest k
  simp only [List.length_singleton] at this ⊢
  rw [this]

/-! ### varints and records -/

theorem before_cons (b : UInt8) (bs rest : Bytes) (k : Nat) :
    before (b :: bs) rest k = before [b] (bs ++ rest) (bs.length + k) := by
  have := before_append [b] bs rest k
  simpa using this

/-- the LEB128 loop on the encoding of `n`, with `x` accumulated below bit `s` -/
theorem varLoop_enc : ∀ (f n fuel x s : Nat) (rest : Bytes) (k : Nat),
    n < 128 ^ f → 0 < f → (encUvarint f n).length ≤ fuel → x + n * 2 ^ s < 2 ^ 64 →
    varLoop fuel x s (before (encUvarint f n) rest k) = (some (x + n * 2 ^ s), after rest k)
  | 0, _, _, _, _, _, _, _, hf, _, _ => by omega
  | f + 1, n, fuel, x, s, rest, k, hn, _, hfuel, hx => by
    by_cases hsmall : n < 128
    · cases fuel with
      | zero => simp [encUvarint, hsmall] at hfuel
      | succ fu =>
        have hb : (n.toUInt8).toNat = n := by simp [Nat.toUInt8_eq]; omega
        simp only [encUvarint, hsmall, if_true, varLoop, readByte_before, hb]
        simp [Nat.mod_eq_of_lt hx]
    · have hf1 : 0 < f := by
        cases f with
        | zero => simp at hn; omega
        | succ g => omega
      have hdiv : n / 128 < 128 ^ f := by
        rw [Nat.pow_succ] at hn
        exact Nat.div_lt_of_lt_mul (by rw [Nat.mul_comm]; exact hn)
      cases fuel with
      | zero => simp [encUvarint, hsmall] at hfuel
      | succ fu =>
        have hb : ((n % 128 + 128).toUInt8).toNat = n % 128 + 128 := by simp [Nat.toUInt8_eq]; omega
        have hsplit : n = n / 128 * 128 + n % 128 := by omega
        have hpow : 2 ^ (s + 7) = 128 * 2 ^ s := by rw [Nat.pow_add]; omega
        have hx' : x + n % 128 * 2 ^ s + n / 128 * 2 ^ (s + 7) = x + n * 2 ^ s := by
          rw [hpow]
          have : n * 2 ^ s = (n / 128 * 128 + n % 128) * 2 ^ s := by rw [← hsplit]
          rw [this, Nat.add_mul, Nat.mul_assoc]; omega
        have hlt : x + n % 128 * 2 ^ s < 2 ^ 64 := by
          have : n % 128 * 2 ^ s ≤ n * 2 ^ s := Nat.mul_le_mul_right _ (Nat.mod_le _ _)
          omega
        simp only [encUvarint, hsmall, if_false, List.length_cons] at hfuel ⊢
        rw [before_cons]
        simp only [varLoop, readByte_before, hb]
        have hnot : ¬ (n % 128 + 128 < 128) := by omega
        have hmod : (n % 128 + 128) % 128 = n % 128 := by omega
        simp only [hnot, if_false, hmod, Nat.mod_eq_of_lt hlt]
        have ih := varLoop_enc f (n / 128) fu (x + n % 128 * 2 ^ s) (s + 7) rest k hdiv hf1 (by omega) (by omega)
        have hst : after (encUvarint f (n / 128) ++ rest) ((encUvarint f (n / 128)).length + k) =
            before (encUvarint f (n / 128)) rest k := by simp [before, after]
        rw [hst, ih, hx']

theorem encUvarint_length_le : ∀ (f n : Nat), (encUvarint f n).length ≤ f
  | 0, _ => by simp [encUvarint]
  | f + 1, n => by
    unfold encUvarint
    split
    · simp
    · have := encUvarint_length_le f (n / 128); simp; omega

theorem encUvarint_pos (f n : Nat) (hf : 0 < f) : 1 ≤ (encUvarint f n).length := by
  cases f with
  | zero => omega
  | succ g => unfold encUvarint; split <;> simp

/-- the zigzag code of an int64, as the encoder computes it -/
def zz (i : Int) : Nat := if i ≥ 0 then (2 * i).toNat else (-2 * i - 1).toNat

theorem zigzag_zz (i : Int) : zigzag (zz i) = i := by
  unfold zigzag zz
  by_cases h : i ≥ 0
  · simp only [h, if_true]
    have : (2 * i).toNat % 2 = 0 := by omega
    simp only [this, if_true]; omega
  · simp only [h, if_false]
    have : ¬ ((-2 * i - 1).toNat % 2 = 0) := by omega
    simp only [this, if_false]; omega

/-- **Varints round-trip** over the whole int64 range, whatever follows. -/
theorem readVarInt_enc (i : Int) (hi : inRange 64 i = true) (rest : Bytes) (k : Nat) :
    readVarInt (before (varint i) rest k) = (i, after rest k) := by
  unfold inRange at hi
  simp only [Bool.and_eq_true, decide_eq_true_eq] at hi
  have hz : zz i < 2 ^ 64 := by unfold zz; split <;> simp at hi ⊢ <;> omega
  have hvar : varint i = encUvarint 10 (zz i) := by unfold varint uvarint zz; rfl
  unfold readVarInt
  have hlen := encUvarint_length_le 10 (zz i)
  have hfuel : (encUvarint 10 (zz i)).length ≤ min 11 (before (varint i) rest k).remain := by
    simp only [before, hvar]; omega
  have := varLoop_enc 10 (zz i) (min 11 (before (varint i) rest k).remain) 0 0 rest k
    (by have : (2 : Nat) ^ 64 ≤ 128 ^ 10 := by decide
        omega) (by decide) (by rw [hvar] at hfuel ⊢; exact hfuel) (by simpa using hz)
  rw [hvar] at this ⊢
  rw [this]
  simp [zigzag_zz]

theorem readVarString_enc (n : Int) (b rest : Bytes) (k : Nat) (h : lenOk n b = true) :
    readVarString n (before b rest k) = (.str b, after rest k) := by
  unfold lenOk at h
  simp only [Bool.or_eq_true, Bool.and_eq_true, decide_eq_true_eq, List.isEmpty_iff] at h
  unfold readVarString
  rcases h with ⟨hn, _⟩ | ⟨⟨hn, hb⟩, _⟩
  · by_cases hz : n ≤ 0
    · have : b = [] := by
        have : b.length = 0 := by omega
        exact List.length_eq_zero_iff.mp this
      subst this; simp [hz, before_nil]
    · simp only [hz, if_false]
      have : n.toNat = b.length := by omega
      rw [this, readN_before]
  · subst hb; simp [hn, before_nil]

theorem lenOk_range (n : Int) (b : Bytes) (h : lenOk n b = true) : inRange 64 n = true := by
  unfold lenOk at h
  simp only [Bool.or_eq_true, Bool.and_eq_true] at h
  rcases h with ⟨_, h⟩ | ⟨_, h⟩ <;> exact h

/-- one record header: key length, key, value length, value -/
theorem decodeHeader_enc (kl vl : Int) (key v rest : Bytes) (k : Nat) (hk : lenOk kl key = true) (hv : lenOk vl v = true) :
    decodeHeader (before (varint kl ++ key ++ varint vl ++ v) rest k) =
      (.cons (.int kl) (.cons (.str key) (.cons (.int vl) (.cons (.str v) .nil))), after rest k) := by
  unfold decodeHeader
  simp only [List.append_assoc]
  rw [before_append, readVarInt_enc kl (lenOk_range kl key hk)]
  simp only
  rw [show after (key ++ (varint vl ++ v) ++ rest) ((key ++ (varint vl ++ v)).length + k) =
        before key ((varint vl ++ v) ++ rest) ((varint vl ++ v).length + k) by
      simp [before, after, List.append_assoc, Nat.add_assoc]]
  rw [readVarString_enc kl key _ _ hk]
  simp only
  rw [show after (varint vl ++ v ++ rest) ((varint vl ++ v).length + k) = before (varint vl) (v ++ rest) (v.length + k) by
      simp [before, after, List.append_assoc, Nat.add_assoc]]
  rw [readVarInt_enc vl (lenOk_range vl v hv)]
  simp only
  rw [show after (v ++ rest) (v.length + k) = before v rest k by simp [before, after]]
  rw [readVarString_enc vl v _ _ hv]

theorem after_before (bs rest : Bytes) (k : Nat) : after (bs ++ rest) (bs.length + k) = before bs rest k := by
  simp [before, after]

theorem peel_varint (i : Int) (hi : inRange 64 i = true) (tl rest : Bytes) (k : Nat) :
    readVarInt (before (varint i ++ tl) rest k) = (i, before tl rest k) := by
  rw [before_append, readVarInt_enc i hi, after_before]

theorem peel_int1 (i : Int) (hi : inRange 8 i = true) (tl rest : Bytes) (k : Nat) :
    readInt 1 (before (encInt 1 i ++ tl) rest k) = (i, before tl rest k) := by
  rw [before_append, readInt_before 1 (by simp) i (by simpa using hi), after_before]

theorem peel_varstr (n : Int) (b : Bytes) (h : lenOk n b = true) (tl rest : Bytes) (k : Nat) :
    readVarString n (before (b ++ tl) rest k) = (.str b, before tl rest k) := by
  rw [before_append, readVarString_enc n b _ _ h, after_before]

theorem varint_pos (i : Int) : 1 ≤ (varint i).length := by
  unfold varint uvarint; exact encUvarint_pos 10 _ (by decide)

theorem encHeader_pos (h : Val) (hc : conformsHeader h = true) : 2 ≤ (encHeader h).length := by
  match h, hc with
  | .cons (.int kl) (.cons (.str k) (.cons (.int vl) (.cons (.str v) .nil))), _ =>
    have h1 := varint_pos kl
    have h2 := varint_pos vl
    simp only [encHeader, strBytes, List.length_append]; omega

theorem decodeHeader_enc' (h : Val) (hc : conformsHeader h = true) (rest : Bytes) (k : Nat) :
    decodeHeader (before (encHeader h) rest k) = (h, after rest k) := by
  match h, hc with
  | .cons (.int kl) (.cons (.str key) (.cons (.int vl) (.cons (.str v) .nil))), hc =>
    simp only [conformsHeader, Bool.and_eq_true] at hc
    simpa [encHeader, strBytes] using decodeHeader_enc kl vl key v rest k hc.1 hc.2

/-- the header loop over the encodings of the headers -/
theorem repeatWhile_headers : ∀ (hs : Val), allChain conformsHeader hs = true → ∀ (rest : Bytes) (k : Nat),
    repeatWhile decodeHeader hs.chainLen (before (chainBytes encHeader hs) rest k) = (hs, after rest k)
  | .cons h r, hc, rest, k => by
    simp only [allChain, Bool.and_eq_true] at hc
    have hpos := encHeader_pos h hc.1
    have hrem : (before (encHeader h ++ chainBytes encHeader r) rest k).remain > 0 := by
      simp only [before, List.length_append]; omega
    have herr : (before (encHeader h ++ chainBytes encHeader r) rest k).err = false := rfl
    simp only [Val.chainLen, chainBytes, repeatWhile, hrem, herr, Bool.false_eq_true, not_false_eq_true, and_self, if_true]
    rw [before_append, decodeHeader_enc' h hc.1]
    simp only
    rw [after_before, repeatWhile_headers r hc.2 rest k]
  | .nil, _, rest, k => by simp [Val.chainLen, chainBytes, repeatWhile, before_nil]
  | .int _, h, _, _ | .bool _, h, _, _ | .str _, h, _, _ | .nullStr, h, _, _ | .bytes _, h, _, _
  | .null, h, _, _ | .arr _, h, _, _ => by simp [allChain] at h

theorem headers_len (hs : Val) (hc : allChain conformsHeader hs = true) : hs.chainLen ≤ (chainBytes encHeader hs).length := by
  match hs, hc with
  | .cons h r, hc =>
    simp only [allChain, Bool.and_eq_true] at hc
    have := encHeader_pos h hc.1
    have := headers_len r hc.2
    simp only [Val.chainLen, chainBytes, List.length_append]; omega
  | .nil, _ => simp [Val.chainLen]

/-- **Records round-trip**: every conforming record - varint lengths of any size, null and empty
    keys and values, any bytes, any number of headers - is decoded to exactly its fields. -/
theorem decodeRecord_enc (v : Val) (hc : conformsRec v = true) (rest : Bytes) (k : Nat) :
    decodeRecord (before (encRecord v) rest k) = (v, after rest k) := by
  match v, hc with
  | .cons (.int len) (.cons (.int at_) (.cons (.int ts) (.cons (.int off) (.cons (.int kl) (.cons (.str key)
      (.cons (.int vl) (.cons (.str val) (.cons (.arr hs) .nil)))))))), hc =>
    simp only [conformsRec, Bool.and_eq_true] at hc
    obtain ⟨⟨⟨⟨⟨⟨⟨hlen, hat⟩, hts⟩, hoff⟩, hk⟩, hv⟩, hhs⟩, hcount⟩ := hc
    unfold decodeRecord
    simp only [encRecord, strBytes, List.append_assoc]
    rw [peel_varint len hlen]; simp only
    rw [peel_int1 at_ hat]; simp only
    rw [peel_varint ts hts]; simp only
    rw [peel_varint off hoff]; simp only
    rw [peel_varint kl (lenOk_range kl key hk)]; simp only
    rw [peel_varstr kl key hk]; simp only
    rw [peel_varint vl (lenOk_range vl val hv)]; simp only
    rw [peel_varstr vl val hv]; simp only
    rw [peel_varint (hs.chainLen : Int) hcount]; simp only
    have hmin : min ((hs.chainLen : Int)).toNat (before (chainBytes encHeader hs) rest k).remain = hs.chainLen := by
      have := headers_len hs hhs
      simp only [before, Int.toNat_natCast]; omega
    rw [hmin, repeatWhile_headers hs hhs rest k]

/-- `Good ty v`: decoding the encoding of `v`, whatever follows it, yields `v` (with null strings
    reported as empty) and stops exactly at the end of the encoding -/
def Good (ty : Ty) (v : Val) : Prop :=
  ∀ (rest : Bytes) (k : Nat), decode ty (before (enc false ty v) rest k) = (normV v, after rest k)

theorem normV_headers : ∀ (hs : Val), allChain conformsHeader hs = true → normV hs = hs
  | .cons h r, hc => by
    simp only [allChain, Bool.and_eq_true] at hc
    have ih := normV_headers r hc.2
    match h, hc.1 with
    | .cons (.int _) (.cons (.str _) (.cons (.int _) (.cons (.str _) .nil))), _ => simp [normV, ih]
  | .nil, _ => by simp [normV]
  | .int _, h | .bool _, h | .str _, h | .nullStr, h | .bytes _, h | .null, h | .arr _, h => by simp [allChain] at h

theorem normV_rec (v : Val) (hc : conformsRec v = true) : normV v = v := by
  match v, hc with
  | .cons (.int _) (.cons (.int _) (.cons (.int _) (.cons (.int _) (.cons (.int _) (.cons (.str _)
      (.cons (.int _) (.cons (.str _) (.cons (.arr hs) .nil)))))))), hc =>
    simp only [conformsRec, Bool.and_eq_true] at hc
    simp [normV, normV_headers hs hc.1.2]

theorem decodePrim_enc (p : Prim) (v : Val) (hc : conformsPrim p v = true)
    (rest : Bytes) (k : Nat) :
    decodePrim p (before (encPrim false p v) rest k) = (normV v, after rest k) := by
  by_cases hp : p = .recordV0
  · subst hp
    have hr : conformsRec v = true := by simpa [conformsPrim] using hc
    simp only [decodePrim, encPrim]
    rw [decodeRecord_enc v hr rest k, normV_rec v hr]
  cases p <;> cases v <;> simp [conformsPrim] at hc <;> try contradiction
  · -- bool
    rename_i b
    simp only [decodePrim, encPrim]
    rw [readByte_before]
    cases b <;> simp [normV]
  · simp only [decodePrim, encPrim]; rw [readInt_before 1 (by simp) _ (by simpa using hc)]; simp [normV]
  · simp only [decodePrim, encPrim]; rw [readInt_before 2 (by simp) _ (by simpa using hc)]; simp [normV]
  · simp only [decodePrim, encPrim]; rw [readInt_before 4 (by simp) _ (by simpa using hc)]; simp [normV]
  · simp only [decodePrim, encPrim]; rw [readInt_before 8 (by simp) _ (by simpa using hc)]; simp [normV]
  · simp only [decodePrim, encPrim]; simp only [Bool.false_eq_true, if_false]; rw [readString_before _ _ _ hc]; simp [normV]
  · rename_i o
    cases o with
    | none => simp only [decodePrim, encPrim]; simp only [Bool.false_eq_true, if_false]; rw [readBytes_null]; simp [normV]
    | some b =>
      simp only [decodePrim, encPrim]; simp only [Bool.false_eq_true, if_false]
      rw [readBytes_before _ _ _ (by simpa using hc)]; simp [normV]
  · simp only [decodePrim, encPrim]; simp only [Bool.false_eq_true, if_false]; rw [readString_before _ _ _ hc]; simp [normV]
  · simp only [decodePrim, encPrim]; simp only [Bool.false_eq_true, if_false]; rw [readString_null]; simp [normV]

theorem chainLen_le_bytes (f : Val → Bytes) : ∀ es : Val,
    allChain (fun v => decide (1 ≤ (f v).length)) es = true → es.chainLen ≤ (chainBytes f es).length
  | .cons v r, h => by
    simp only [allChain, Bool.and_eq_true, decide_eq_true_eq] at h
    have := chainLen_le_bytes f r h.2
    simp only [Val.chainLen, chainBytes, List.length_append]
    omega
  | .nil, _ => by simp [Val.chainLen, chainBytes]
  | .int _, _ | .bool _, _ | .str _, _ | .nullStr, _ | .bytes _, _ | .null, _ | .arr _, _ => by simp [Val.chainLen]

/-- the element loop over the encodings of the elements -/
theorem repeatDec_enc (e : Ty) (z : Val) (ih : ∀ v, conforms e v = true → Good e v) : ∀ (es : Val),
    allChain (fun v => conforms e v && decide (1 ≤ (enc false e v).length)) es = true →
    ∀ (rest : Bytes) (k : Nat),
      repeatDec (decode e) z es.chainLen (before (chainBytes (enc false e) es) rest k) = (normV es, after rest k)
  | .cons v r, h, rest, k => by
    simp only [allChain, Bool.and_eq_true, decide_eq_true_eq] at h
    obtain ⟨⟨hv, hlen⟩, hr⟩ := h
    simp only [Val.chainLen, chainBytes, repeatDec]
    have hpos : (before (enc false e v ++ chainBytes (enc false e) r) rest k).remain > 0 := by
      simp only [before, List.length_append]; omega
    simp only [hpos, if_true]
    rw [before_append, ih v hv]
    simp only
    have hb : after (chainBytes (enc false e) r ++ rest) ((chainBytes (enc false e) r).length + k) =
        before (chainBytes (enc false e) r) rest k := by simp [before, after]
    rw [hb, repeatDec_enc e z ih r hr rest k]
    simp [normV]
  | .nil, _, rest, k => by simp [Val.chainLen, chainBytes, repeatDec, normV, before_nil]
  | .int _, h, _, _ | .bool _, h, _, _ | .str _, h, _, _ | .nullStr, h, _, _ | .bytes _, h, _, _
  | .null, h, _, _ | .arr _, h, _, _ => by simp [allChain] at h

theorem allChain_mono (p q : Val → Bool) (hpq : ∀ v, p v = true → q v = true) : ∀ es : Val,
    allChain p es = true → allChain q es = true
  | .cons v r, h => by
    simp only [allChain, Bool.and_eq_true] at h ⊢
    exact ⟨hpq v h.1, allChain_mono p q hpq r h.2⟩
  | .nil, _ => by simp [allChain]
  | .int _, h | .bool _, h | .str _, h | .nullStr, h | .bytes _, h | .null, h | .arr _, h => by simp [allChain] at h

/-- **Round trip**: for every schema without records and every conforming value, the decoder
    applied to the reference encoding of the value - whatever follows it - yields the value and
    stops at the end of the encoding. -/
theorem c06_decode_enc : ∀ (ty : Ty) (v : Val), conforms ty v = true → Good ty v
  | .prim p, v, hc => by
    intro rest k
    simp only [decode, enc]
    exact decodePrim_enc p v (by simpa [conforms] using hc) rest k
  | .unit, v, hc => by
    intro rest k
    cases v <;> simp [conforms] at hc
    simp [decode, enc, normV, before_nil]
  | .seq n a r, v, hc => by
    intro rest k
    cases v <;> simp [conforms] at hc
    rename_i x xs
    simp only [decode, enc]
    rw [before_append, c06_decode_enc a x hc.1]
    simp only
    have hb : after (enc false r xs ++ rest) ((enc false r xs).length + k) = before (enc false r xs) rest k := by
      simp [before, after]
    rw [hb, c06_decode_enc r xs hc.2]
    simp [normV]
  | .arr e, v, hc => by
    intro rest k
    cases v <;> simp [conforms] at hc
    · -- null
      simp only [decode, enc, Bool.false_eq_true, if_false]
      rw [readInt_before 4 (by simp) _ (by unfold inRange; simp)]
      simp [normV]
    · rename_i es
      obtain ⟨hn, hall⟩ := hc
      simp only [decode, enc, Bool.false_eq_true, if_false]
      rw [before_append, readInt_before 4 (by simp) _ (by unfold inRange; simp; omega)]
      simp only
      have h1 : ¬ (((es.chainLen : Nat) : Int) < 0 ∨ ((es.chainLen : Nat) : Int) > 65535) := by omega
      simp only [h1, if_false, Int.toNat_natCast]
      have hb : after (chainBytes (enc false e) es ++ rest) ((chainBytes (enc false e) es).length + k) =
          before (chainBytes (enc false e) es) rest k := by simp [before, after]
      rw [hb]
      have hall' : allChain (fun v => conforms e v && decide (1 ≤ (enc false e v).length)) es = true := by
        simpa using hall
      have hle : es.chainLen ≤ (chainBytes (enc false e) es).length :=
        chainLen_le_bytes _ es (allChain_mono _ _ (by intro v hv; simp only [Bool.and_eq_true] at hv; exact hv.2) es hall')
      have hmin : min es.chainLen (before (chainBytes (enc false e) es) rest k).remain = es.chainLen := by
        simp only [before]; omega
      rw [hmin, repeatDec_enc e (zeroVal e) (fun v hv => c06_decode_enc e v hv) es hall' rest k]
      simp [normV]

/-! ### exactness: layouts with the same normal form decode alike -/

/-- two decode functions that leave the same state and report the same field values -/
def Agree (f g : D → Val × D) : Prop := ∀ d, (f d).2 = (g d).2 ∧ leaves (f d).1 = leaves (g d).1

theorem Agree.refl (f : D → Val × D) : Agree f f := fun _ => ⟨rfl, rfl⟩
theorem Agree.trans {f g h : D → Val × D} (a : Agree f g) (b : Agree g h) : Agree f h :=
  fun d => ⟨(a d).1.trans (b d).1, (a d).2.trans (b d).2⟩

theorem zeros_chainLen (z : Val) : ∀ n, (zeros z n).chainLen = n
  | 0 => by simp [zeros, Val.chainLen]
  | n + 1 => by simp [zeros, Val.chainLen, zeros_chainLen z n]

theorem zeros_leaves (z z' : Val) (h : leaves z = leaves z') : ∀ n, leaves (zeros z n) = leaves (zeros z' n)
  | 0 => by simp [zeros]
  | n + 1 => by simp [zeros, leaves, h, zeros_leaves z z' h n]

theorem repeatDec_chainLen (f : D → Val × D) (z : Val) : ∀ n d, (repeatDec f z n d).1.chainLen = n
  | 0, d => by simp [repeatDec, Val.chainLen]
  | n + 1, d => by
    unfold repeatDec
    split
    · simp [Val.chainLen, repeatDec_chainLen f z n]
    · exact zeros_chainLen z (n + 1)

theorem repeatDec_agree {f g : D → Val × D} (z z' : Val) (hfg : Agree f g) (hz : leaves z = leaves z') :
    ∀ n d, (repeatDec f z n d).2 = (repeatDec g z' n d).2 ∧
           leaves (repeatDec f z n d).1 = leaves (repeatDec g z' n d).1
  | 0, d => by simp [repeatDec]
  | n + 1, d => by
    unfold repeatDec
    split
    · obtain ⟨hs, hl⟩ := hfg d
      have ih := repeatDec_agree z z' hfg hz n (f d).2
      simp only [leaves]
      rw [hl, ← hs]
      exact ⟨ih.1, by rw [ih.2]⟩
    · exact ⟨rfl, zeros_leaves z z' hz (n + 1)⟩

/-- arrays of elements that decode alike decode alike -/
theorem arr_agree {e e' : Ty} (h : Agree (decode e) (decode e')) (hz : leaves (zeroVal e) = leaves (zeroVal e')) :
    Agree (decode (.arr e)) (decode (.arr e')) := by
  intro d
  simp only [decode]
  split
  · exact ⟨rfl, rfl⟩
  · have := repeatDec_agree (zeroVal e) (zeroVal e') h hz (min (readInt 4 d).1.toNat (readInt 4 d).2.remain) (readInt 4 d).2
    refine ⟨this.1, ?_⟩
    simp only [leaves, repeatDec_chainLen, this.2]

theorem seq_agree {a a' r r' : Ty} (n n' : String) (ha : Agree (decode a) (decode a')) (hr : Agree (decode r) (decode r')) :
    Agree (decode (.seq n a r)) (decode (.seq n' a' r')) := by
  intro d
  simp only [decode, leaves]
  obtain ⟨hs, hl⟩ := ha d
  rw [hs, hl]
  obtain ⟨hs2, hl2⟩ := hr (decode a' d).2
  exact ⟨hs2, by rw [hl2]⟩

/-- decoding `a.append r` is decoding `a`, then `r` -/
theorem decode_append : ∀ (a r : Ty) (d : D),
    (decode (a.append r) d).2 = (decode r (decode a d).2).2 ∧
    leaves (decode (a.append r) d).1 = leaves (decode a d).1 ++ leaves (decode r (decode a d).2).1
  | .unit, r, d => by simp [Ty.append, decode, leaves]
  | .seq n x rest, r, d => by
    have ih := decode_append rest r (decode x d).2
    simp only [Ty.append, decode, leaves, List.append_assoc]
    exact ⟨ih.1, by rw [ih.2]⟩
  | .prim p, r, d => by simp [Ty.append, decode, leaves]
  | .arr e, r, d => by simp [Ty.append, decode, leaves]

theorem zeroVal_append : ∀ (a r : Ty), leaves (zeroVal (a.append r)) = leaves (zeroVal a) ++ leaves (zeroVal r)
  | .unit, r => by simp [Ty.append, zeroVal, leaves]
  | .seq n x rest, r => by simp [Ty.append, zeroVal, leaves, zeroVal_append rest r]
  | .prim p, r => by simp [Ty.append, zeroVal, leaves]
  | .arr e, r => by simp [Ty.append, zeroVal, leaves]

theorem unwrap1_agree (t : Ty) : Agree (decode (unwrap1 t)) (decode t) ∧ leaves (zeroVal (unwrap1 t)) = leaves (zeroVal t) := by
  unfold unwrap1
  split
  · next n x =>
    split
    · exact ⟨fun d => by simp [decode, leaves], by simp [zeroVal, leaves]⟩
    · exact ⟨fun d => by simp [decode, leaves], by simp [zeroVal, leaves]⟩
  · exact ⟨Agree.refl _, rfl⟩

/-- **Normal forms**: a schema and its normal form leave the same state and report the same
    field values on every input (well-formed or not). -/
theorem decode_norm (ty : Ty) : Agree (decode (norm ty)) (decode ty) ∧ leaves (zeroVal (norm ty)) = leaves (zeroVal ty) := by
  induction ty with
  | prim p =>
    cases p <;> exact ⟨fun d => by simp [norm, normPrim, decode, decodePrim], by simp [norm, normPrim, zeroVal, zeroPrim]⟩
  | arr e ih =>
    have hu := unwrap1_agree (norm e)
    refine ⟨?_, by simp [norm, zeroVal]⟩
    simp only [norm]
    exact arr_agree (Agree.trans hu.1 ih.1) (hu.2.trans ih.2)
  | unit => exact ⟨Agree.refl _, rfl⟩
  | seq n a rest iha ihr =>
    cases a with
    | unit =>
      refine ⟨fun d => ?_, ?_⟩
      · simp only [norm, decode, leaves, List.nil_append]
        exact ihr.1 d
      · simp only [norm, zeroVal, leaves, List.nil_append]; exact ihr.2
    | seq m x r =>
      refine ⟨fun d => ?_, ?_⟩
      · have hap := decode_append (norm (.seq m x r)) (norm rest) d
        simp only [norm] at hap ⊢
        rw [hap.1, hap.2]
        obtain ⟨hs, hl⟩ := iha.1 d
        simp only [decode, leaves] at hs hl ⊢
        rw [hs, hl]
        obtain ⟨hs2, hl2⟩ := ihr.1 (decode r (decode x d).2).2
        exact ⟨hs2, by rw [hl2]⟩
      · have := zeroVal_append (norm (.seq m x r)) (norm rest)
        simp only [norm] at this ⊢
        rw [this]
        have h1 := iha.2
        rw [h1, ihr.2]
        simp [zeroVal, leaves]
    | prim p =>
      have hn : norm (.seq n (.prim p) rest) = .seq "" (norm (.prim p)) (norm rest) := by simp [norm]
      rw [hn]
      refine ⟨seq_agree _ _ iha.1 ihr.1, ?_⟩
      show leaves (zeroVal (norm (.prim p))) ++ leaves (zeroVal (norm rest)) = leaves (zeroVal (.prim p)) ++ leaves (zeroVal rest)
      rw [iha.2, ihr.2]
    | arr e =>
      have hn : norm (.seq n (.arr e) rest) = .seq "" (norm (.arr e)) (norm rest) := by simp [norm]
      rw [hn]
      refine ⟨seq_agree _ _ iha.1 ihr.1, ?_⟩
      show leaves (zeroVal (norm (.arr e))) ++ leaves (zeroVal (norm rest)) = leaves (zeroVal (.arr e)) ++ leaves (zeroVal rest)
      rw [iha.2, ihr.2]

/-- **Wire equivalence is sound**: layouts with the same normal form cannot be told apart by any
    input - same state after decoding, same field values. -/
theorem c06_compat_sound (l p : Ty) (h : compat l p = true) : Agree (decode l) (decode p) := by
  have hn : norm l = norm p := by simpa [compat] using h
  intro d
  have a := (decode_norm l).1 d
  have b := (decode_norm p).1 d
  rw [hn] at a
  exact ⟨a.1.symm.trans b.1, a.2.symm.trans b.2⟩

theorem leaves_normV : ∀ v : Val, leaves (normV v) = leaves v
  | .nullStr => by simp [normV, leaves]
  | .arr es => by
    have : ∀ w : Val, (normV w).chainLen = w.chainLen := by
      intro w
      induction w with
      | cons v r _ ihr => simp [normV, Val.chainLen, ihr]
      | _ => simp [normV, Val.chainLen]
    simp [normV, leaves, this, leaves_normV es]
  | .cons v r => by simp [normV, leaves, leaves_normV v, leaves_normV r]
  | .int _ | .bool _ | .str _ | .bytes _ | .null | .nil => by simp [normV]

/-- **Exactness**: when the layout the dissector selects has the normal form of the reference
    schema, then for every conforming value - arrays of any length up to 65535 including null,
    strings and bytes of any length including null, integers over their whole range - and whatever
    follows on the stream, the decoded payload carries exactly the field values that were
    encoded, in order, and decoding stops exactly at the end of the encoding. -/
theorem c06_exact (l p : Ty) (hcompat : compat l p = true)
    (v : Val) (hv : conforms p v = true) (rest : Bytes) (k : Nat) :
    leaves (decode l (before (enc false p v) rest k)).1 = leaves v ∧
    (decode l (before (enc false p v) rest k)).2 = after rest k := by
  obtain ⟨hs, hl⟩ := c06_compat_sound l p hcompat (before (enc false p v) rest k)
  have hg := c06_decode_enc p v hv rest k
  rw [hs, hl, hg]
  exact ⟨leaves_normV v, rfl⟩

/-! ### the request header -/

theorem before_zero (bs tail : Bytes) : ({ stream := bs ++ tail, remain := bs.length, err := false } : D) = before bs tail 0 := by
  simp [before]

theorem after_as_before (bs tail : Bytes) (k : Nat) : after (bs ++ tail) (bs.length + k) = before bs tail k := by
  simp [before, after]

def cidLen : Option Bytes → Nat
  | some b => 2 + b.length
  | none => 2

/-- **Header exactness and framing of a whole request**: for every API key, version, correlation
    id and client id (null included), with any body bytes at all, the request is accepted, the
    header is reported as encoded, the size is the length of the message, and the next message
    starts right after it - whether or not the dissector has a layout for the API. -/
theorem c06_request_header (api ver corr : Int) (cid : Option Bytes) (body tail : Bytes)
    (hapi : inRange 16 api = true) (hver : inRange 16 ver = true) (hcorr : inRange 32 corr = true)
    (hcid : ∀ b, cid = some b → b.length < 32768)
    (hsize : 8 + cidLen cid + body.length ≤ 1000000)
    (hsup : ∀ ty, (lookupLayout api ver).1 = some ty → ty.hasUnsupported = false) :
    let m : CMsg := { api, ver, corr, clientId := cid, body := .raw body }
    ∃ q, readRequest (encRequest m ++ tail) = .ok (q, tail) ∧
      q.size = ((encRequest m).length - 4 : Nat) ∧ q.apiKey = api ∧ q.ver = ver ∧ q.corr = corr ∧
      q.clientId = cid.getD [] ∧ q.layout = (lookupLayout api ver).1 ∧
      (∀ l, (lookupLayout api ver).1 = some l → q.payload = (decode l (before body tail 0)).1) := by
  intro m
  -- the message after its size field
  let cidB : Bytes := match cid with | some b => encInt 2 b.length ++ b | none => encInt 2 (-1)
  let R : Bytes := encInt 2 api ++ (encInt 2 ver ++ (encInt 4 corr ++ (cidB ++ body)))
  have hcidLen : cidB.length = cidLen cid := by
    cases cid <;> simp [cidB, cidLen, encInt_length]
  have hRlen : R.length = 8 + cidB.length + body.length := by
    simp only [R, List.length_append, encInt_length]; omega
  have henc : encRequest m = encInt 4 R.length ++ R := by
    simp only [encRequest, m, Body.flex, encBody, Bool.false_eq_true, if_false, List.append_nil, R, cidB]
    cases cid <;> simp [List.append_assoc]
  have hlen4 : (encRequest m).length - 4 = R.length := by rw [henc]; simp [encInt_length]
  -- reading the size
  have hsz : readInt 4 { stream := encRequest m ++ tail, remain := 4 } = ((R.length : Int), after (R ++ tail) 0) := by
    rw [henc, List.append_assoc]
    have := readInt_before 4 (by simp) (R.length : Int) (by unfold inRange; simp; omega) (R ++ tail) 0
    simpa [before, encInt_length] using this
  have hd0 : ({ (after (R ++ tail) 0) with remain := ((R.length : Int)).toNat } : D) = before R tail 0 := by
    simp [before, after]
  -- the header fields
  have h1 : readInt 2 (before R tail 0) = (api, before (encInt 2 ver ++ (encInt 4 corr ++ (cidB ++ body))) tail 0) := by
    show readInt 2 (before (encInt 2 api ++ _) tail 0) = _
    rw [before_append, readInt_before 2 (by simp) api hapi, after_as_before]
  have h2 : readInt 2 (before (encInt 2 ver ++ (encInt 4 corr ++ (cidB ++ body))) tail 0) =
      (ver, before (encInt 4 corr ++ (cidB ++ body)) tail 0) := by
    rw [before_append, readInt_before 2 (by simp) ver hver, after_as_before]
  have h3 : readInt 4 (before (encInt 4 corr ++ (cidB ++ body)) tail 0) = (corr, before (cidB ++ body) tail 0) := by
    rw [before_append, readInt_before 4 (by simp) corr hcorr, after_as_before]
  have h4 : readString (before (cidB ++ body) tail 0) = (.str (cid.getD []), before body tail 0) := by
    rw [before_append]
    cases cid with
    | none => simp only [cidB]; rw [readString_null, after_as_before]; simp
    | some b => simp only [cidB]; rw [readString_before b _ _ (hcid b rfl), after_as_before]; simp
  -- through readRequest
  unfold readRequest
  simp only [hsz]
  have hnotbig : ¬ ((R.length : Int) > 1000000) := by omega
  have hnotsmall : ¬ ((R.length : Int) < 8) := by omega
  simp only [hnotbig, hnotsmall, if_false, hd0, h1, h2, h3, h4]
  have herr : (before body tail 0).err = false := rfl
  simp only [herr, Bool.false_eq_true, if_false]
  have hrest : ∀ d, Within (before body tail 0) d → d.discardAll.stream = tail := by
    intro d hd
    rw [within_discardAll hd (by simp [before])]
    simp [before]
  cases hl : (lookupLayout api ver).1 with
  | none =>
    simp only
    exact ⟨_, by rw [hrest _ (Within.refl _)], by simp [hlen4], rfl, rfl, rfl, rfl, rfl, by intro l hl'; cases hl'⟩
  | some ty =>
    simp only [hsup ty hl, Bool.false_eq_true, if_false]
    exact ⟨_, by rw [hrest _ (decode_within ty _)], by simp [hlen4], rfl, rfl, rfl, rfl, rfl, by
      intro l hl'; cases hl'; rfl⟩

/-! ### the table -/

open KsVerif.Generated.KafkaProtocol

/-- **Every row of the reference** (Produce 0-8, Fetch 0-11, ListOffsets 1-5, Metadata 0-8,
    ApiVersions 0-2, CreateTopics 0-5, DeleteTopics 0-3; both directions) either has a selected
    layout that is wire-equivalent to it, or is one of the listed deviations.  Evaluated by the
    kernel on the tables regenerated from the tree: a layout edit that changes the wire reading
    of any row breaks this theorem. -/
theorem c06_table : tableOk = true := by decide +kernel

theorem c06_row (r : ProtoRow) (hr : r ∈ protoTable) : rowOk r = true := by
  have := c06_table
  unfold tableOk at this
  exact List.all_eq_true.mp this r hr

/-- requests of every row outside the deviations: exact for all values and all continuations -/
theorem c06_request_rows (r : ProtoRow) (hr : r ∈ protoTable) (hdev : (r.1.1, r.1.2, Dir.req) ∉ deviations) :
    r.2.2.1 = false ∧ ∃ l, (lookupLayout r.1.1 r.1.2).1 = some l ∧
      ∀ v, conforms r.2.1 v = true → ∀ rest k,
        leaves (decode l (before (enc false r.2.1 v) rest k)).1 = leaves v ∧
        (decode l (before (enc false r.2.1 v) rest k)).2 = after rest k := by
  have h := c06_row r hr
  unfold rowOk at h
  simp only [Bool.and_eq_true, Bool.or_eq_true] at h
  have hc : rowCompat r .req = true := by
    rcases h.1 with h1 | h1
    · exact h1
    · exact absurd (List.contains_iff_mem.mp h1) hdev
  unfold rowCompat at hc
  simp only [Bool.and_eq_true, Bool.not_eq_true'] at hc
  refine ⟨hc.1, ?_⟩
  cases hl : (lookupLayout r.1.1 r.1.2).1 with
  | none => rw [hl] at hc; simp at hc
  | some l =>
    rw [hl] at hc
    simp only [Bool.and_eq_true, Bool.not_eq_true'] at hc
    exact ⟨l, rfl, fun v hv rest k => c06_exact l r.2.1 hc.2.1 v hv rest k⟩

/-- responses likewise -/
theorem c06_response_rows (r : ProtoRow) (hr : r ∈ protoTable) (hdev : (r.1.1, r.1.2, Dir.resp) ∉ deviations) :
    r.2.2.2.2 = false ∧ ∃ l, (lookupLayout r.1.1 r.1.2).2 = some l ∧
      ∀ v, conforms r.2.2.2.1 v = true → ∀ rest k,
        leaves (decode l (before (enc false r.2.2.2.1 v) rest k)).1 = leaves v ∧
        (decode l (before (enc false r.2.2.2.1 v) rest k)).2 = after rest k := by
  have h := c06_row r hr
  unfold rowOk at h
  simp only [Bool.and_eq_true, Bool.or_eq_true] at h
  have hc : rowCompat r .resp = true := by
    rcases h.2 with h1 | h1
    · exact h1
    · exact absurd (List.contains_iff_mem.mp h1) hdev
  unfold rowCompat at hc
  simp only [Bool.and_eq_true, Bool.not_eq_true'] at hc
  refine ⟨hc.1, ?_⟩
  cases hl : (lookupLayout r.1.1 r.1.2).2 with
  | none => rw [hl] at hc; simp at hc
  | some l =>
    rw [hl] at hc
    simp only [Bool.and_eq_true, Bool.not_eq_true'] at hc
    exact ⟨l, rfl, fun v hv rest k => c06_exact l r.2.2.2.1 hc.2.1 v hv rest k⟩

/-- **A whole request of a decoded API, end to end**: for every row of the reference outside the
    deviations, every conforming body value, every correlation id and client id (null included)
    and whatever follows on the stream: the request is accepted, its header is reported as
    encoded, its payload carries exactly the encoded field values in order, its size is its
    length, and the next message starts right after it. -/
theorem c06_request_exact (r : ProtoRow) (hr : r ∈ protoTable) (hdev : (r.1.1, r.1.2, Dir.req) ∉ deviations)
    (corr : Int) (cid : Option Bytes) (v : Val) (tail : Bytes)
    (hapi : inRange 16 r.1.1 = true) (hver : inRange 16 r.1.2 = true) (hcorr : inRange 32 corr = true)
    (hcid : ∀ b, cid = some b → b.length < 32768) (hv : conforms r.2.1 v = true)
    (hsize : 8 + cidLen cid + (enc false r.2.1 v).length ≤ 1000000) :
    let m : CMsg := { api := r.1.1, ver := r.1.2, corr, clientId := cid, body := .typed r.2.1 false v }
    ∃ q, readRequest (encRequest m ++ tail) = .ok (q, tail) ∧
      q.size = ((encRequest m).length - 4 : Nat) ∧ q.apiKey = r.1.1 ∧ q.ver = r.1.2 ∧ q.corr = corr ∧
      q.clientId = cid.getD [] ∧ leaves q.payload = leaves v := by
  intro m
  have h := c06_row r hr
  unfold rowOk at h
  simp only [Bool.and_eq_true, Bool.or_eq_true] at h
  have hc : rowCompat r .req = true := by
    rcases h.1 with h1 | h1
    · exact h1
    · exact absurd (List.contains_iff_mem.mp h1) hdev
  unfold rowCompat at hc
  simp only [Bool.and_eq_true, Bool.not_eq_true'] at hc
  cases hl : (lookupLayout r.1.1 r.1.2).1 with
  | none => rw [hl] at hc; simp at hc
  | some l =>
    rw [hl] at hc
    simp only [Bool.and_eq_true, Bool.not_eq_true'] at hc
    have hraw : encRequest m = encRequest { api := r.1.1, ver := r.1.2, corr, clientId := cid, body := .raw (enc false r.2.1 v) } := by
      simp [m, encRequest, encBody, Body.flex]
    obtain ⟨q, hq, hsz, ha, hvv, hco, hci, _, hpay⟩ := c06_request_header r.1.1 r.1.2 corr cid (enc false r.2.1 v) tail hapi hver hcorr hcid hsize
      (by intro ty hty; rw [hl] at hty; cases hty; exact hc.2.2)
    refine ⟨q, by rw [hraw]; exact hq, by rw [hraw]; exact hsz, ha, hvv, hco, hci, ?_⟩
    rw [hpay l hl]
    exact (c06_exact l r.2.1 hc.2.1 v hv tail 0).1

/-- **A whole response, end to end**: the response to an open request of a row outside the
    deviations - any conforming body value, whatever follows - is matched to that request by its
    correlation id, its payload carries exactly the encoded field values in order, its size is
    its length, the request leaves the set of open requests, and the next message starts right
    after it. -/
theorem c06_response_exact (r : ProtoRow) (hr : r ∈ protoTable) (hdev : (r.1.1, r.1.2, Dir.resp) ∉ deviations)
    (open_ : List Req) (q : Req) (hq : open_.find? (fun o => o.corr == q.corr) = some q)
    (hqa : q.apiKey = r.1.1) (hqv : q.ver = r.1.2) (hcorr : inRange 32 q.corr = true)
    (v : Val) (tail : Bytes) (hv : conforms r.2.2.2.1 v = true)
    (hsize : 4 + (enc false r.2.2.2.1 v).length ≤ 1000000) :
    let m : SMsg := { corr := q.corr, body := .typed r.2.2.2.1 false v }
    ∃ it, readResponse open_ (encResponse m ++ tail) =
        .ok (some it, open_.filter (fun o => o.corr != q.corr), tail) ∧
      it.req.corr = q.corr ∧ it.req.apiKey = r.1.1 ∧ it.resp.corr = q.corr ∧
      it.resp.size = ((encResponse m).length - 4 : Nat) ∧ leaves it.resp.payload = leaves v := by
  intro m
  have h := c06_row r hr
  unfold rowOk at h
  simp only [Bool.and_eq_true, Bool.or_eq_true] at h
  have hc : rowCompat r .resp = true := by
    rcases h.2 with h1 | h1
    · exact h1
    · exact absurd (List.contains_iff_mem.mp h1) hdev
  unfold rowCompat at hc
  simp only [Bool.and_eq_true, Bool.not_eq_true'] at hc
  cases hl : (lookupLayout r.1.1 r.1.2).2 with
  | none => rw [hl] at hc; simp at hc
  | some l =>
    rw [hl] at hc
    simp only [Bool.and_eq_true, Bool.not_eq_true'] at hc
    let body := enc false r.2.2.2.1 v
    let R : Bytes := encInt 4 q.corr ++ body
    have hRlen : R.length = 4 + body.length := by simp [R, encInt_length]
    have henc : encResponse m = encInt 4 R.length ++ R := by
      simp [encResponse, m, Body.flex, encBody, R, body]
    have hlen4 : (encResponse m).length - 4 = R.length := by rw [henc]; simp [encInt_length]
    have hRbound : R.length ≤ 1000000 := by simp only [body] at hRlen; omega
    have hsz : readInt 4 { stream := encResponse m ++ tail, remain := 4 } = ((R.length : Int), after (R ++ tail) 0) := by
      rw [henc, List.append_assoc]
      have := readInt_before 4 (by simp) (R.length : Int) (by unfold inRange; simp; omega) (R ++ tail) 0
      simpa [before, encInt_length] using this
    have hd0 : ({ (after (R ++ tail) 0) with remain := ((R.length : Int)).toNat } : D) = before R tail 0 := by
      simp [before, after]
    have h1 : readInt 4 (before R tail 0) = (q.corr, before body tail 0) := by
      show readInt 4 (before (encInt 4 q.corr ++ body) tail 0) = _
      rw [before_append, readInt_before 4 (by simp) q.corr hcorr, after_as_before]
    have hex := c06_exact l r.2.2.2.1 hc.2.1 v hv tail 0
    have hfr : ((decode l (before body tail 0)).2.discardAll).stream = tail := by
      rw [within_discardAll (decode_within l _) (by simp [before])]
      simp [before]
    unfold readResponse
    simp only [hsz]
    have hnotbig : ¬ ((R.length : Int) > 1000000) := by omega
    have hnotsmall : ¬ ((R.length : Int) < 4) := by omega
    simp only [hnotbig, hnotsmall, if_false, hd0, h1, hq, hqa, hqv, hl, hc.2.2, Bool.false_eq_true]
    exact ⟨_, by rw [hfr], rfl, hqa, rfl, by simp [hlen4], hex.1⟩

/-- the names the dissector reports for API keys −1 … 51 (regenerated from `ApiKey.String`) are
    the protocol's -/
theorem c06_api_names : Generated.Kafka.apiNameTable.all (fun r => r.2 == specApiName r.1) = true := by decide +kernel

/-! ### non-vacuity: concrete rows, concrete conforming values -/

/-- Metadata v5 response: brokers, cluster id (nullable), topics with partitions and their
    replica / ISR / offline-replica arrays -/
def metaV5 : ProtoRow := ((3, 5), ((protoTable.find? fun r => r.1 == (3, 5)).map (·.2)).getD (.unit, false, .unit, false))

example : metaV5 ∈ protoTable ∧ (metaV5.1.1, metaV5.1.2, Dir.resp) ∉ deviations := by
  decide +kernel

def metaV5Value : Val :=
  chainOf [.int 12,
    .arr (chainOf [chainOf [.int 1, .str [104, 49], .int 9092, .nullStr]]),
    .str [99],
    .int 1,
    .arr (chainOf [chainOf [.int 0, .str [116], .bool false,
      .arr (chainOf [chainOf [.int 0, .int 0, .int 1, .arr (chainOf [.int 1, .int 2]), .arr (chainOf [.int 1]), .arr .nil]])]])]

example : conforms metaV5.2.2.2.1 metaV5Value = true := by decide +kernel

/-- Fetch v5 response: one topic, one partition with a null aborted-transactions array and a
    record batch of one record with a key and a null value -/
def fetchV5 : ProtoRow := ((1, 5), ((protoTable.find? fun r => r.1 == (1, 5)).map (·.2)).getD (.unit, false, .unit, false))

def fetchV5Value : Val :=
  let record := chainOf [.int 8, .int 0, .int 0, .int 0, .int 1, .str [107], .int (-1), .str [], .arr .nil]
  let recordSet := chainOf [.int 70, .int 0, .int 58, .int (-1), .int 2, .int 0, .int 0, .int 0, .int 1, .int 1,
    .int (-1), .int (-1), .int (-1), .arr (chainOf [record])]
  chainOf [.int 0, .arr (chainOf [chainOf [.str [116],
    .arr (chainOf [chainOf [.int 0, .int 0, .int 5, .int 5, .int 0, .null, recordSet]])]])]

example : fetchV5 ∈ protoTable ∧ (fetchV5.1.1, fetchV5.1.2, Dir.resp) ∉ deviations ∧
    conforms fetchV5.2.2.2.1 fetchV5Value = true := by decide +kernel

end KsVerif.Proofs.C06
