/-
  Driver glue for the Kafka families.
-/
import KsVerif.Kafka.Compat
import KsVerif.Base.Verdict

namespace KsVerif.Kafka.Driver
open KsVerif KsVerif.Kafka KsVerif.Kafka.Spec KsVerif.Generated.Kafka

def cidOfSx : Sx → Option (Option Bytes)
  | .atom "null" => some none
  | s => s.asBytes?.map some

structure Parsed where
  cs : List CMsg
  ss : List SMsg
  cwire : List Bytes
  swire : List Bytes
  /-- (api, ver) of the request each typed response answers -/
  sApi : List (Int × Int)

def typedBody (api ver : Int) (dir : Dir) (v : Sx) : Option Body := do
  let (pq, fq, pr, fr) ← protoRow api ver
  match dir with
  | .req => some (.typed pq fq (← valOfSx pq v))
  | .resp => some (.typed pr fr (← valOfSx pr v))

def cmsgOfSx : Sx → Option (CMsg × Bytes)
  | .list [.atom "q", api, ver, corr, cid, v, wire] => do
    let api ← api.asInt?; let ver ← ver.asInt?
    some ({ api, ver, corr := ← corr.asInt?, clientId := ← cidOfSx cid, body := ← typedBody api ver .req v }, ← wire.asBytes?)
  | .list [.atom "qraw", api, ver, corr, cid, body, wire] => do
    some ({ api := ← api.asInt?, ver := ← ver.asInt?, corr := ← corr.asInt?, clientId := ← cidOfSx cid,
            body := .raw (← body.asBytes?) }, ← wire.asBytes?)
  | _ => none

def smsgOfSx : Sx → Option (SMsg × Bytes × (Int × Int))
  | .list [.atom "r", api, ver, corr, v, wire] => do
    let api ← api.asInt?; let ver ← ver.asInt?
    some ({ corr := ← corr.asInt?, body := ← typedBody api ver .resp v }, ← wire.asBytes?, (api, ver))
  | .list [.atom "rraw", corr, body, wire] => do
    some ({ corr := ← corr.asInt?, body := .raw (← body.asBytes?) }, ← wire.asBytes?, (-1, -1))
  | _ => none

/-- last element of a cons chain -/
def lastOf : Val → Val
  | .cons v .nil => v
  | .cons _ r => lastOf r
  | v => v

def anyChain (f : Val → Bool) : Val → Bool
  | .cons v r => f v || anyChain f r
  | _ => false

/-- Produce request: some topic with other than exactly one partition? -/
def produceManyPartitions (v : Val) : Bool :=
  match lastOf v with
  | .arr topics => anyChain (fun t => match lastOf t with
      | .arr ps => ps.chainLen != 1
      | _ => true) topics
  | _ => false

def tagsOf (cs : List CMsg) (ss : List SMsg) (sApi : List (Int × Int)) : List String :=
  let answered (c : CMsg) := ss.any fun s => s.corr == c.corr
  let qt := cs.flatMap fun c =>
    if !answered c then [] else
    match c.body with
    | .typed _ flex v =>
      (if flex then ["kafka-flexible-version"] else []) ++
      (if c.api == 0 && c.ver < 3 then ["kafka-message-set"] else []) ++
      (if c.api == 0 && c.ver ≥ 3 && produceManyPartitions v then ["kafka-produce-partitions"] else [])
    | .raw _ => []
  let rt := (ss.zip sApi).flatMap fun (s, (api, ver)) =>
    match s.body with
    | .typed _ flex _ =>
      (if flex then ["kafka-flexible-version"] else []) ++
      (if api == 1 && ver < 4 then ["kafka-message-set"] else [])
    | .raw _ => []
  (qt ++ rt).eraseDups

/-- the harness reports a crash / hang as `(crash …)` / `(timeout …)` / `(panic …)`, a panic
    inside one half as the stop kind `panic:…` -/
def crashedObs (impl : String) : Bool :=
  impl.startsWith "(crash" || impl.startsWith "(timeout" || impl.startsWith "(panic" ||
  (impl.splitOn "(c panic").length > 1 || (impl.splitOn "(s panic").length > 1

def judgeConv (payload impl : String) : Verdict :=
  match Sx.parse payload with
  | some (.list [.list cms, .list sms]) =>
    match cms.mapM cmsgOfSx, sms.mapM smsgOfSx with
    | some cs, some ss =>
      let cmsgs := cs.map (·.1)
      let smsgs := ss.map (·.1)
      -- the reference encoder (kafka-go, in the harness) and the spec encoder must agree byte for byte
      let encOk := cs.all (fun (m, w) => encRequest m == w) && ss.all (fun (m, w, _) => encResponse m == w)
      if !encOk then .bad "encoder-mismatch"
      else
        let cb := (cs.map (·.2)).flatten
        let sb := (ss.map (·.2.1)).flatten
        let m := observe cb sb
        let want := expected apiNameTable cmsgs smsgs
        let implSx := Sx.parse impl
        let tags := tagsOf cmsgs smsgs (ss.map (·.2.2))
        let apis := (cmsgs.map fun c => s!"{c.api}v{c.ver}").eraseDups
        { corr := implSx.map Sx.toStr == some m.toStr,
          implSpec := !crashedObs impl && (implSx.map fun o => (summary o).toStr) == some want.toStr,
          modelSpec := (summary m).toStr == want.toStr, tags, nontrivial := !smsgs.isEmpty,
          cls := ",".intercalate (apis.take 3), model := m.toStr, spec := want.toStr }
    | _, _ => .bad "bad-case"
  | _ => .bad "bad-case"

/-- arbitrary bytes on both halves: the model must predict the dissector; the dissector must
    not panic -/
def judgeRaw (payload impl : String) : Verdict :=
  match Sx.parse payload with
  | some (.list [cb, sb]) =>
    match cb.asBytes?, sb.asBytes? with
    | some cb, some sb =>
      let m := observe cb sb
      let ok := !crashedObs impl
      { corr := impl == m.toStr, implSpec := ok, modelSpec := !crashedObs m.toStr, tags := [],
        nontrivial := cb.length + sb.length > 8, cls := "raw", model := m.toStr, spec := "no-panic" }
    | _, _ => .bad "bad-case"
  | _ => .bad "bad-case"

/-- the same bytes delivered in pieces: the observation is the one the bytes alone determine -/
def judgeSplit (payload impl : String) : Verdict :=
  match Sx.parse payload with
  | some (.list [.list cs, .list ss]) =>
    match cs.mapM Sx.asBytes?, ss.mapM Sx.asBytes? with
    | some cc, some sc =>
      let m := observe cc.flatten sc.flatten
      { corr := impl == m.toStr, implSpec := impl == m.toStr && !crashedObs impl, modelSpec := true, tags := [],
        nontrivial := cc.length + sc.length > 2, cls := s!"pieces={min (cc.length + sc.length) 8}", model := m.toStr,
        spec := "the observation of the unsplit bytes" }
    | _, _ => .bad "bad-case"
  | _ => .bad "bad-case"

end KsVerif.Kafka.Driver
