/-
  Kafka: the message level of pkg/extensions/kafka — ReadRequest / ReadResponse (size-prefixed
  framing, header, layout selection, `discardAll`), the correlation-id matcher and the items
  emitted, over the layouts ksextract regenerates from the tree.
-/
import KsVerif.Kafka.Schema
import KsVerif.Generated.GenKafkaLayouts

namespace KsVerif.Kafka
open KsVerif.Generated.Kafka

/-- versions are sampled at -1..17; ksextract checks that the extremes of int16 select the same
    layouts as -1 and 17 -/
def clampVer (v : Int) : Int := max (-1) (min v 17)

def lookupLayout (api ver : Int) : Option Ty × Option Ty :=
  ((layoutTable.find? fun r => r.1.1 == api && r.1.2 == clampVer ver).map (·.2)).getD (none, none)

def apiName (api : Int) : String :=
  ((apiNameTable.find? fun r => r.1 == api).map (·.2)).getD (toString api)

inductive Stop where
  | eof | ueof | tooBig | small | noMatch | panic
  deriving DecidableEq, Repr

def Stop.name : Stop → String
  | .eof => "eof" | .ueof => "ueof" | .tooBig => "toobig" | .small => "small"
  | .noMatch => "nomatch" | .panic => "panic"

structure Req where
  size : Int
  apiKey : Int
  ver : Int
  corr : Int
  clientId : Bytes
  layout : Option Ty
  payload : Val
  deriving Repr

structure Resp where
  size : Int
  corr : Int
  layout : Ty
  payload : Val
  deriving Repr

/-- one request from the head of the client half: the request registered and the rest of the
    stream, or why Dissect returns -/
def readRequest (s : Bytes) : Except Stop (Req × Bytes) :=
  let sz := readInt 4 { stream := s, remain := 4 }
  let size := sz.1
  if size > 1000000 then .error .tooBig
  else if size < 8 then (if size = 0 then .error .eof else .error .small)
  else
    let d0 : D := { sz.2 with remain := size.toNat }
    let apiKey := readInt 2 d0
    let ver := readInt 2 apiKey.2
    let corr := readInt 4 ver.2
    let cid := readString corr.2
    if cid.2.err then .error .ueof
    else
      let layout := (lookupLayout apiKey.1 ver.1).1
      let clientId := match cid.1 with | .str b => b | _ => []
      match layout with
      | some ty =>
        if ty.hasUnsupported then .error .panic
        else
          let body := decode ty cid.2
          .ok ({ size, apiKey := apiKey.1, ver := ver.1, corr := corr.1, clientId, layout, payload := body.1 },
               body.2.discardAll.stream)
      | none =>
        .ok ({ size, apiKey := apiKey.1, ver := ver.1, corr := corr.1, clientId, layout, payload := .nil },
             cid.2.discardAll.stream)

/-- registerRequest: one open request per correlation id (a later one replaces it) -/
def register (open_ : List Req) (q : Req) : List Req :=
  (open_.filter fun o => o.corr != q.corr) ++ [q]

def dissectClient : Nat → Bytes → List Req → List Req × Stop
  | 0, _, acc => (acc, .eof)
  | fuel + 1, s, acc =>
    match readRequest s with
    | .error e => (acc, e)
    | .ok (q, rest) => dissectClient fuel rest (register acc q)

structure Item where
  req : Req
  resp : Resp
  deriving Repr

/-- one response from the head of the server half -/
def readResponse (open_ : List Req) (s : Bytes) : Except Stop (Option Item × List Req × Bytes) :=
  let sz := readInt 4 { stream := s, remain := 4 }
  let size := sz.1
  if size > 1000000 then .error .tooBig
  else if size < 4 then (if size = 0 then .error .eof else .error .small)
  else
    let d0 : D := { sz.2 with remain := size.toNat }
    let corr := readInt 4 d0
    match open_.find? fun o => o.corr == corr.1 with
    | none => .error .noMatch
    | some q =>
      let open' := open_.filter fun o => o.corr != corr.1
      match (lookupLayout q.apiKey q.ver).2 with
      | some ty =>
        if ty.hasUnsupported then .error .panic
        else
          let body := decode ty corr.2
          .ok (some { req := q, resp := { size, corr := corr.1, layout := ty, payload := body.1 } }, open',
               body.2.discardAll.stream)
      | none => .ok (none, open', corr.2.discardAll.stream)

def dissectServer : Nat → Bytes → List Req → List Item → List Item × List Req × Stop
  | 0, _, open_, acc => (acc, open_, .eof)
  | fuel + 1, s, open_, acc =>
    match readResponse open_ s with
    | .error e => (acc, open_, e)
    | .ok (it, open', rest) => dissectServer fuel rest open' (match it with | some i => acc ++ [i] | none => acc)

def reqSx (q : Req) : Sx :=
  .list [.atom "req", Sx.ofInt q.size, Sx.ofInt q.apiKey, .atom (apiName q.apiKey), Sx.ofInt q.ver, Sx.ofInt q.corr,
         Sx.ofBytes q.clientId, (match q.layout with | some ty => valSx ty q.payload | none => .atom "nopayload")]

def respSx (r : Resp) : Sx :=
  .list [.atom "resp", Sx.ofInt r.size, Sx.ofInt r.corr, valSx r.layout r.payload]

/-- client half first, then the server half, through one matcher -/
def observe (cb sb : Bytes) : Sx :=
  let (open_, cstop) := dissectClient (cb.length + 1) cb []
  let (items, left, sstop) := dissectServer (sb.length + 1) sb open_ []
  .list [.list [.atom "c", .atom cstop.name], .list [.atom "s", .atom sstop.name],
         .list (.atom "items" :: items.map fun it => .list [reqSx it.req, respSx it.resp]),
         .list [.atom "left", Sx.ofNat left.length]]

end KsVerif.Kafka
