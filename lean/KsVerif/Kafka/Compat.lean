/-
  Kafka: when do two schemas decode every message to the same field values?  `norm` forgets
  names and struct nesting (which do not show on the wire of a non-flexible message); two
  schemas with the same normal form are wire-equivalent (proved in Proofs/C06).
-/
import KsVerif.Kafka.Model
import KsVerif.Kafka.Spec

namespace KsVerif.Kafka
open KsVerif.Generated.KafkaProtocol

def normPrim : Prim → Prim
  | .nstr => .str
  | p => p

def Ty.append : Ty → Ty → Ty
  | .unit, r => r
  | .seq n a rest, r => .seq n a (Ty.append rest r)
  | t, r => .seq "" t r

def Ty.isStruct : Ty → Bool
  | .unit => true
  | .seq _ _ _ => true
  | _ => false

/-- a struct of one field is its field -/
def unwrap1 : Ty → Ty
  | .seq _ x .unit => if x.isStruct then .seq "" x .unit else x
  | t => t

def norm : Ty → Ty
  | .prim p => .prim (normPrim p)
  | .arr e => .arr (unwrap1 (norm e))
  | .unit => .unit
  | .seq _ a rest =>
    match a with
    | .unit => norm rest
    | .seq n x r => (norm (.seq n x r)).append (norm rest)
    | .prim p => .seq "" (.prim (normPrim p)) (norm rest)
    | .arr e => .seq "" (.arr (unwrap1 (norm e))) (norm rest)

def compat (l p : Ty) : Bool := norm l == norm p

inductive Dir where
  | req | resp
  deriving DecidableEq, Repr

def protoRow (api ver : Int) : Option (Ty × Bool × Ty × Bool) :=
  (protoTable.find? fun r => r.1.1 == api && r.1.2 == ver).map (·.2)

abbrev ProtoRow := (Int × Int) × (Ty × Bool × Ty × Bool)

/-- is the layout the dissector selects for the row's (api, version) wire-equivalent to the
    reference schema of that row?  (a flexible version never is: the dissector has no compact
    encodings) -/
def rowCompat (r : ProtoRow) (dir : Dir) : Bool :=
  match dir with
  | .req => !r.2.2.1 && (match (lookupLayout r.1.1 r.1.2).1 with | some l => compat l r.2.1 && !l.hasUnsupported | none => false)
  | .resp => !r.2.2.2.2 && (match (lookupLayout r.1.1 r.1.2).2 with | some l => compat l r.2.2.2.1 && !l.hasUnsupported | none => false)

/-- the (api, version, direction) triples of the reference whose selected layout is *not*
    wire-equivalent: Produce requests (one partition per topic assumed; message sets before v3),
    Fetch responses before v4 (message sets), CreateTopics v5 (flexible).  Known findings. -/
def deviations : List (Int × Int × Dir) :=
  [(0, 0, .req), (0, 1, .req), (0, 2, .req), (0, 3, .req), (0, 4, .req), (0, 5, .req), (0, 6, .req), (0, 7, .req), (0, 8, .req),
   (1, 0, .resp), (1, 1, .resp), (1, 2, .resp), (1, 3, .resp), (19, 5, .req), (19, 5, .resp)]

def rowOk (r : ProtoRow) : Bool :=
  (rowCompat r .req || deviations.contains (r.1.1, r.1.2, .req)) &&
  (rowCompat r .resp || deviations.contains (r.1.1, r.1.2, .resp))

def tableOk : Bool := protoTable.all rowOk

def compatReport : List (Int × Int × Bool × Bool) :=
  protoTable.map fun r => (r.1.1, r.1.2, rowCompat r .req, rowCompat r .resp)

end KsVerif.Kafka
