/-
  Kafka: schemas, value trees and the reflective decoder of pkg/extensions/kafka/decode.go.

  The dissector decodes a message body by walking a Go struct type with reflection
  (`decodeFuncOf`): one decode function per kind, fields in declaration order.  None of the
  struct types carries a `kafka:` tag, so `makeTypes` yields exactly one, non-flexible,
  message type per struct and every exported field is decoded (ksextract fails when a tag
  appears).  A layout is therefore a `Ty`; `KsVerif.Generated.Kafka.layoutTable` holds, for
  every (api key, version), the `Ty` of the struct the running dissector selected.

  `decode` is that walk over the decoder state `D`: the rest of the half-stream, the number of
  bytes of the current message not yet consumed (`decoder.remain`) and the sticky error.
-/
import KsVerif.Base.Sx

namespace KsVerif.Kafka

abbrev Bytes := List UInt8

inductive Prim where
  | bool | int8 | int16 | int32 | int64 | str | bytes | recordV0
  | nstr           -- protocol side only: nullable string (the dissector has one string kind)
  | unsupported    -- a kind decodeFuncOf has no case for (calling the nil decode function panics)
  deriving DecidableEq, Repr, Inhabited

/-- a struct is a `seq` chain ending in `unit`; `name` is the JSON name of the field -/
inductive Ty where
  | prim (p : Prim)
  | arr (e : Ty)
  | unit
  | seq (name : String) (a : Ty) (rest : Ty)
  deriving DecidableEq, Repr, Inhabited

def Ty.ofFields : List (String × Ty) → Ty
  | [] => .unit
  | (n, t) :: r => .seq n t (Ty.ofFields r)

/-- value trees: a struct value is the `cons` chain of its field values, an array value is
    `arr` around the `cons` chain of its elements, `null` is a nil slice -/
inductive Val where
  | int (i : Int)
  | bool (b : Bool)
  | str (b : Bytes)
  | nullStr                     -- protocol side only (encoded as length -1)
  | bytes (b : Option Bytes)
  | null
  | arr (elems : Val)
  | nil
  | cons (v : Val) (rest : Val)
  deriving DecidableEq, Repr, Inhabited

/-- a record set holding one record batch (magic 2), as Produce v3+ and Fetch v4+ carry it:
    the BYTES length, the batch header, the records -/
def recordSetTy : Ty := Ty.ofFields [
  ("size", .prim .int32), ("baseOffset", .prim .int64), ("batchLength", .prim .int32),
  ("partitionLeaderEpoch", .prim .int32), ("magic", .prim .int8), ("crc", .prim .int32),
  ("attributes", .prim .int16), ("lastOffsetDelta", .prim .int32), ("firstTimestamp", .prim .int64),
  ("maxTimestamp", .prim .int64), ("producerId", .prim .int64), ("producerEpoch", .prim .int16),
  ("baseSequence", .prim .int32), ("records", .arr (.prim .recordV0))]

def Val.chainLen : Val → Nat
  | .cons _ r => r.chainLen + 1
  | _ => 0

/-! ### decoder state -/

structure D where
  stream : Bytes
  remain : Nat
  err : Bool := false
  deriving Repr, DecidableEq

/-- `discardAll`: skip what is left of the message (as far as the stream goes) -/
def D.discardAll (d : D) : D :=
  let n := min d.remain d.stream.length
  { d with stream := d.stream.drop n, remain := d.remain - n,
           err := d.err || decide (d.stream.length < d.remain) }

/-- `setError`: the first error sticks and discards the rest of the message -/
def D.fail (d : D) : D :=
  if d.err then d else { d.discardAll with err := true }

/-- `readFull` on the first `k` bytes of the scratch buffer (`io.ReadFull(d, b[:k])`) -/
def readFull (k : Nat) (d : D) : Option Bytes × D :=
  if k = 0 then (some [], d)
  else if d.err then (none, d)
  else
    let got := min k (min d.remain d.stream.length)
    if got = k then (some (d.stream.take k), { d with stream := d.stream.drop k, remain := d.remain - k })
    else (none, D.fail { d with stream := d.stream.drop got, remain := d.remain - got })

def beNat (bs : Bytes) : Nat := bs.foldl (fun acc b => acc * 256 + b.toNat) 0

def toSigned (bits : Nat) (n : Nat) : Int :=
  if n < 2 ^ (bits - 1) then (n : Int) else (n : Int) - (2 ^ bits : Nat)

/-- readInt8/16/32/64: 0 when the bytes are not there -/
def readInt (k : Nat) (d : D) : Int × D :=
  match readFull k d with
  | (some bs, d') => (toSigned (8 * k) (beNat bs), d')
  | (none, d') => (0, d')

def readByte (d : D) : Nat × D :=
  match readFull 1 d with
  | (some [b], d') => (b.toNat, d')
  | (_, d') => (0, d')

/-- `read(n)`: at most what the message still holds; a declared length beyond that is an
    error, and the bytes that were there are returned all the same -/
def readN (n : Nat) (d : D) : Bytes × D :=
  let m := min n d.remain
  if d.err then ([], d)
  else
    let got := min m d.stream.length
    let d' : D := { d with stream := d.stream.drop got, remain := d.remain - got }
    if got = m ∧ m = n then (d.stream.take got, d')
    else (d.stream.take got, D.fail d')

def readString (d : D) : Val × D :=
  let (n, d1) := readInt 2 d
  if n < 0 then (.str [], d1)
  else let (b, d2) := readN n.toNat d1; (.str b, d2)

def readBytesV (d : D) : Val × D :=
  let (n, d1) := readInt 4 d
  if n < 0 then (.bytes none, d1)
  else let (b, d2) := readN n.toNat d1; (.bytes (some b), d2)

def zigzag (x : Nat) : Int := if x % 2 = 0 then (x / 2 : Nat) else -((x / 2 : Nat) : Int) - 1

/-- the loop of readVarInt: `n` bytes may still be read, `x` accumulated below bit `s` -/
def varLoop : Nat → Nat → Nat → D → Option Nat × D
  | 0, _, _, d => (none, d)
  | n + 1, x, s, d =>
    let (b, d1) := readByte d
    if b < 128 then (some ((x + b * 2 ^ s) % 2 ^ 64), d1)
    else varLoop n ((x + (b % 128) * 2 ^ s) % 2 ^ 64) (s + 7) d1

def readUVarint (d : D) : Nat × D :=
  match varLoop (min 11 d.remain) 0 0 d with
  | (some x, d1) => (x, d1)
  | (none, d1) => (0, D.fail d1)

/-- `int64(x>>1) ^ -(int64(x) & 1)` on the accumulated uint64 -/
def readVarInt (d : D) : Int × D :=
  match varLoop (min 11 d.remain) 0 0 d with
  | (some x, d1) => (zigzag x, d1)
  | (none, d1) => (0, D.fail d1)

/-- readVarString: the `n` bytes after a varint length; nothing for a null (negative) or empty one -/
def readVarString (n : Int) (d : D) : Val × D :=
  if n ≤ 0 then (.str [], d)
  else let (b, d1) := readN n.toNat d; (.str b, d1)

/-- run `f` while iterations are left, the message is not exhausted and no error is set;
    the result holds as many elements as iterations ran (append, no preallocation) -/
def repeatWhile (f : D → Val × D) : Nat → D → Val × D
  | 0, d => (.nil, d)
  | n + 1, d =>
    if d.remain > 0 ∧ ¬ d.err then
      let (v, d1) := f d
      let (vs, d2) := repeatWhile f n d1
      (.cons v vs, d2)
    else (.nil, d)

def decodeHeader (d : D) : Val × D :=
  let kl := readVarInt d
  let k := readVarString kl.1 kl.2
  let vl := readVarInt k.2
  let v := readVarString vl.1 vl.2
  (.cons (.int kl.1) (.cons k.1 (.cons (.int vl.1) (.cons v.1 .nil))), v.2)

/-- decodeRecordV0 -/
def decodeRecord (d : D) : Val × D :=
  let len := readVarInt d
  let attrs := readInt 1 len.2
  let ts := readVarInt attrs.2
  let off := readVarInt ts.2
  let kl := readVarInt off.2
  let k := readVarString kl.1 kl.2
  let vl := readVarInt k.2
  let v := readVarString vl.1 vl.2
  let hn := readVarInt v.2
  -- the loop runs at most once per remaining byte: an iteration without error consumes one
  let hs := repeatWhile decodeHeader (min hn.1.toNat hn.2.remain) hn.2
  (.cons (.int len.1) (.cons (.int attrs.1) (.cons (.int ts.1) (.cons (.int off.1) (.cons (.int kl.1) (.cons k.1
    (.cons (.int vl.1) (.cons v.1 (.cons (.arr hs.1) .nil)))))))), hs.2)

def decodePrim : Prim → D → Val × D
  | .bool, d => let (b, d1) := readByte d; (.bool (b != 0), d1)
  | .int8, d => let (i, d1) := readInt 1 d; (.int i, d1)
  | .int16, d => let (i, d1) := readInt 2 d; (.int i, d1)
  | .int32, d => let (i, d1) := readInt 4 d; (.int i, d1)
  | .int64, d => let (i, d1) := readInt 8 d; (.int i, d1)
  | .str, d => readString d
  | .nstr, d => readString d
  | .bytes, d => readBytesV d
  | .recordV0, d => decodeRecord d
  | .unsupported, d => (.nil, d)

def zeroPrim : Prim → Val
  | .bool => .bool false
  | .int8 | .int16 | .int32 | .int64 => .int 0
  | .str | .nstr => .str []
  | .bytes => .bytes none
  | .recordV0 => .cons (.int 0) (.cons (.int 0) (.cons (.int 0) (.cons (.int 0) (.cons (.int 0) (.cons (.str [])
      (.cons (.int 0) (.cons (.str []) (.cons .null .nil))))))))
  | .unsupported => .nil

def zeroVal : Ty → Val
  | .prim p => zeroPrim p
  | .arr _ => .null
  | .unit => .nil
  | .seq _ a rest => .cons (zeroVal a) (zeroVal rest)

def zeros (z : Val) : Nat → Val
  | 0 => .nil
  | n + 1 => .cons z (zeros z n)

/-- the element loop of decodeArray: `n` slots, decoded while the message has bytes left,
    zero values after that -/
def repeatDec (f : D → Val × D) (z : Val) : Nat → D → Val × D
  | 0, d => (.nil, d)
  | n + 1, d =>
    if d.remain > 0 then
      let (v, d1) := f d
      let (vs, d2) := repeatDec f z n d1
      (.cons v vs, d2)
    else (zeros z (n + 1), d)

def decode : Ty → D → Val × D
  | .prim p, d => decodePrim p d
  | .unit, d => (.nil, d)
  | .seq _ a rest, d =>
    let (v, d1) := decode a d
    let (vs, d2) := decode rest d1
    (.cons v vs, d2)
  | .arr e, d =>
    let (n, d1) := readInt 4 d
    if n < 0 ∨ n > 65535 then (.null, d1)
    else
      let (vs, d2) := repeatDec (decode e) (zeroVal e) (min n.toNat d1.remain) d1
      (.arr vs, d2)

/-- does the layout contain a kind decodeFuncOf cannot decode? -/
def Ty.hasUnsupported : Ty → Bool
  | .prim .unsupported => true
  | .prim _ => false
  | .arr e => e.hasUnsupported
  | .unit => false
  | .seq _ a r => a.hasUnsupported || r.hasUnsupported

/-! ### leaves: the field values of a tree in wire order, names and nesting forgotten -/

inductive Leaf where
  | int (i : Int)
  | bytes (b : Bytes)
  | null
  deriving DecidableEq, Repr

def leaves : Val → List Leaf
  | .int i => [.int i]
  | .bool b => [.int (if b then 1 else 0)]
  | .str b => [.bytes b]
  | .nullStr => [.bytes []]
  | .bytes none => [.null]
  | .bytes (some b) => [.bytes b]
  | .null => [.int (-1)]
  | .arr es => .int es.chainLen :: leaves es
  | .nil => []
  | .cons v r => leaves v ++ leaves r

/-! ### printing (names from the layout) -/

def primSx : Val → Sx
  | .int i => Sx.ofInt i
  | .bool b => Sx.ofBool b
  | .str b => Sx.ofBytes b
  | .nullStr => .atom "nullstr"
  | .bytes none => .atom "nullbytes"
  | .bytes (some b) => .list [.atom "y", Sx.ofBytes b]
  | .null => .atom "null"
  | _ => .atom "?"

def chainMap (f : Val → Sx) : Val → List Sx
  | .cons v r => f v :: chainMap f r
  | _ => []

def headerSx (v : Val) : Sx :=
  match v with
  | .cons kl (.cons k (.cons vl (.cons x .nil))) =>
    .list [.atom "S", .list [.atom "headerKeyLength", primSx kl], .list [.atom "headerKey", primSx k],
           .list [.atom "headerValueLength", primSx vl], .list [.atom "value", primSx x]]
  | _ => .atom "?"

def recordSx (v : Val) : Sx :=
  match v with
  | .cons len (.cons at_ (.cons ts (.cons off (.cons kl (.cons k (.cons vl (.cons x (.cons hs .nil)))))))) =>
    .list [.atom "S", .list [.atom "unknown", primSx len], .list [.atom "attributes", primSx at_],
      .list [.atom "timestampDelta", primSx ts], .list [.atom "offsetDelta", primSx off],
      .list [.atom "keyLength", primSx kl], .list [.atom "key", primSx k],
      .list [.atom "valueLen", primSx vl], .list [.atom "value", primSx x],
      .list [.atom "headers", match hs with
        | .arr es => .list (.atom "A" :: chainMap headerSx es)
        | _ => .atom "null"]]
  | _ => .atom "?"

def valSx : Ty → Val → Sx
  | .prim .recordV0, v => recordSx v
  | .prim _, v => primSx v
  | .unit, _ => .list [.atom "S"]
  | .arr e, v =>
    match v with
    | .arr es => .list (.atom "A" :: chainMap (valSx e) es)
    | _ => .atom "null"
  | .seq n a rest, v =>
    match v with
    | .cons x xs =>
      match valSx rest xs with
      | .list (.atom "S" :: fs) => .list (.atom "S" :: .list [.atom n, valSx a x] :: fs)
      | _ => .atom "?"
    | _ => .atom "?"

def leafSx : Leaf → Sx
  | .int i => Sx.ofInt i
  | .bytes b => Sx.ofBytes b
  | .null => .atom "null"

end KsVerif.Kafka
