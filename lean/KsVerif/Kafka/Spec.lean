/-
  Kafka: the specification side.  An independent encoder of the wire format over the reference
  schemas (`KsVerif.Generated.KafkaProtocol.protoTable`, regenerated from the struct tags of
  github.com/segmentio/kafka-go/protocol), an independent parser of the record-batch format,
  and what an item must report (C06): the header fields and the field values of both bodies,
  in wire order.
-/
import KsVerif.Kafka.Schema
import KsVerif.Generated.GenKafkaProtocol

namespace KsVerif.Kafka.Spec
open KsVerif KsVerif.Kafka

def be (n v : Nat) : Bytes := (List.range n).reverse.map fun i => UInt8.ofNat ((v / 256 ^ i) % 256)

/-- two's complement, big endian, `k` bytes -/
def encInt (k : Nat) (i : Int) : Bytes := be k (i % ((256 ^ k : Nat) : Int)).toNat

def encUvarint : Nat → Nat → Bytes
  | 0, _ => []
  | fuel + 1, n => if n < 128 then [n.toUInt8] else (n % 128 + 128).toUInt8 :: encUvarint fuel (n / 128)

def uvarint (n : Nat) : Bytes := encUvarint 10 n

/-- zigzag varint of an int64 -/
def varint (i : Int) : Bytes :=
  uvarint (if i ≥ 0 then (2 * i).toNat else (-2 * i - 1).toNat)

def encVarBytes (len : Int) (b : Bytes) : Bytes := varint len ++ b

def strBytes : Val → Bytes
  | .str b => b
  | _ => []

def chainBytes (f : Val → Bytes) : Val → Bytes
  | .cons v r => f v ++ chainBytes f r
  | _ => []

def encHeader : Val → Bytes
  | .cons (.int kl) (.cons k (.cons (.int vl) (.cons v .nil))) => varint kl ++ strBytes k ++ varint vl ++ strBytes v
  | _ => []

def encRecord : Val → Bytes
  | .cons (.int len) (.cons (.int at_) (.cons (.int ts) (.cons (.int off) (.cons (.int kl) (.cons k
      (.cons (.int vl) (.cons v (.cons (.arr hs) .nil)))))))) =>
    varint len ++ encInt 1 at_ ++ varint ts ++ varint off ++ varint kl ++ strBytes k ++ varint vl ++ strBytes v ++
      varint hs.chainLen ++ chainBytes encHeader hs
  | _ => []

def encPrim (flex : Bool) : Prim → Val → Bytes
  | .bool, .bool b => [if b then 1 else 0]
  | .int8, .int i => encInt 1 i
  | .int16, .int i => encInt 2 i
  | .int32, .int i => encInt 4 i
  | .int64, .int i => encInt 8 i
  | .str, .str b | .nstr, .str b => (if flex then uvarint (b.length + 1) else encInt 2 b.length) ++ b
  | .nstr, .nullStr => if flex then [0] else encInt 2 (-1)
  | .bytes, .bytes none => if flex then [0] else encInt 4 (-1)
  | .bytes, .bytes (some b) => (if flex then uvarint (b.length + 1) else encInt 4 b.length) ++ b
  | .recordV0, v => encRecord v
  | _, _ => []

/-- the body of a message; in a flexible version strings, bytes and arrays are compact and every
    struct ends with its (empty) tagged-field section -/
def enc (flex : Bool) : Ty → Val → Bytes
  | .prim p, v => encPrim flex p v
  | .unit, _ => if flex then [0] else []
  | .seq _ a rest, .cons v vs => enc flex a v ++ enc flex rest vs
  | .seq _ _ _, _ => []
  | .arr _, .null => if flex then [0] else encInt 4 (-1)
  | .arr e, .arr es => (if flex then uvarint (es.chainLen + 1) else encInt 4 es.chainLen) ++ chainBytes (enc flex e) es
  | .arr _, _ => []

/-! ### record batches: an independent reader of the format (magic 2) -/

def takeN (n : Nat) (b : Bytes) : Option (Bytes × Bytes) :=
  if b.length < n then none else some (b.take n, b.drop n)

def sInt (k : Nat) (b : Bytes) : Option (Int × Bytes) :=
  (takeN k b).map fun (x, r) => (toSigned (8 * k) (beNat x), r)

/-- unsigned LEB128, at most ten bytes -/
def pUvarint : Nat → Nat → Nat → Bytes → Option (Nat × Bytes)
  | 0, _, _, _ => none
  | _ + 1, _, _, [] => none
  | fuel + 1, acc, shift, x :: r =>
    if x < 128 then some (acc + x.toNat * 2 ^ shift, r)
    else pUvarint fuel (acc + (x.toNat - 128) * 2 ^ shift) (shift + 7) r

def pVarint (b : Bytes) : Option (Int × Bytes) :=
  (pUvarint 10 0 0 b).map fun (u, r) => (if u % 2 = 0 then ((u / 2 : Nat) : Int) else -((u / 2 : Nat) : Int) - 1, r)

/-- varint length then that many bytes (nothing for a null, i.e. negative, length) -/
def pVarBytes (b : Bytes) : Option (Int × Bytes × Bytes) := do
  let (n, r) ← pVarint b
  if n ≤ 0 then some (n, [], r)
  else let (x, r') ← takeN n.toNat r; some (n, x, r')

def pHeaders : Nat → Bytes → Option (Val × Bytes)
  | 0, b => some (.nil, b)
  | n + 1, b => do
    let (kl, k, r1) ← pVarBytes b
    let (vl, v, r2) ← pVarBytes r1
    let (hs, r3) ← pHeaders n r2
    some (.cons (.cons (.int kl) (.cons (.str k) (.cons (.int vl) (.cons (.str v) .nil)))) hs, r3)

def pRecord (b : Bytes) : Option (Val × Bytes) := do
  let (len, r0) ← pVarint b
  let (body, after) ← takeN len.toNat r0
  let (at_, r1) ← sInt 1 body
  let (ts, r2) ← pVarint r1
  let (off, r3) ← pVarint r2
  let (kl, k, r4) ← pVarBytes r3
  let (vl, v, r5) ← pVarBytes r4
  let (hn, r6) ← pVarint r5
  if hn < 0 then none
  let (hs, r7) ← pHeaders hn.toNat r6
  if r7 ≠ [] then none
  some (.cons (.int len) (.cons (.int at_) (.cons (.int ts) (.cons (.int off) (.cons (.int kl) (.cons (.str k)
    (.cons (.int vl) (.cons (.str v) (.cons (.arr hs) .nil)))))))), after)

def pRecords : Nat → Bytes → Option (Val × Bytes)
  | 0, b => some (.nil, b)
  | n + 1, b => do
    let (r, b1) ← pRecord b
    let (rs, b2) ← pRecords n b1
    some (.cons r rs, b2)

/-- a record set holding exactly one uncompressed record batch: its value in the shape of `recordSetTy` -/
def parseRecordSet (raw : Bytes) : Option Val := do
  let (baseOffset, r1) ← sInt 8 raw
  let (batchLength, r2) ← sInt 4 r1
  if batchLength ≠ r2.length then none
  let (ple, r3) ← sInt 4 r2
  let (magic, r4) ← sInt 1 r3
  if magic ≠ 2 then none
  let (crc, r5) ← sInt 4 r4
  let (attrs, r6) ← sInt 2 r5
  if attrs % 8 ≠ 0 then none        -- compressed
  let (lod, r7) ← sInt 4 r6
  let (ft, r8) ← sInt 8 r7
  let (mt, r9) ← sInt 8 r8
  let (pid, r10) ← sInt 8 r9
  let (pe, r11) ← sInt 2 r10
  let (bs, r12) ← sInt 4 r11
  let (cnt, r13) ← sInt 4 r12
  if cnt < 0 then none
  let (recs, r14) ← pRecords cnt.toNat r13
  if r14 ≠ [] then none
  let fields : List Val := [.int raw.length, .int baseOffset, .int batchLength, .int ple, .int magic, .int crc, .int attrs,
    .int lod, .int ft, .int mt, .int pid, .int pe, .int bs, .arr recs]
  some (fields.foldr .cons .nil)

/-! ### values as the harness writes them, read against a schema -/

def chainOf (vs : List Val) : Val := vs.foldr .cons .nil

def primOfSx : Prim → Sx → Option Val
  | .bool, s => s.asBool?.map .bool
  | .int8, s | .int16, s | .int32, s | .int64, s => s.asInt?.map .int
  | .str, s => s.asBytes?.map .str
  | .nstr, .atom "null" => some .nullStr
  | .nstr, s => s.asBytes?.map .str
  | .bytes, .atom "nullbytes" => some (.bytes none)
  | .bytes, .list [.atom "y", b] => b.asBytes?.map fun x => .bytes (some x)
  | _, _ => none

def mapChain (f : Sx → Option Val) : List Sx → Option Val
  | [] => some .nil
  | x :: xs => do some (.cons (← f x) (← mapChain f xs))

def valOfSx : Ty → Sx → Option Val
  | .prim p, s => primOfSx p s
  | .unit, .list [] => some .nil
  | .unit, _ => none
  | .arr _, .atom "null" => some .null
  | .arr e, .list (.atom "A" :: xs) => (mapChain (valOfSx e) xs).map .arr
  | .arr _, _ => none
  | .seq n a rest, s =>
    if Ty.seq n a rest = recordSetTy then
      match s with
      | .list [.atom "rs", raw] => raw.asBytes?.bind parseRecordSet
      | _ => none
    else
      match s with
      | .list (x :: xs) => do some (.cons (← valOfSx a x) (← valOfSx rest (.list xs)))
      | _ => none

/-! ### conformance (what the reference encoder can be asked to encode) -/

def inRange (bits : Nat) (i : Int) : Bool := -(2 ^ (bits - 1) : Nat) ≤ i && i < (2 ^ (bits - 1) : Nat)

def allChain (f : Val → Bool) : Val → Bool
  | .cons v r => f v && allChain f r
  | .nil => true
  | _ => false

/-- a length field of a record and the bytes after it: the length of the content, or a
    non-positive value with no content (null / empty) -/
def lenOk (n : Int) (b : Bytes) : Bool := (decide (n = b.length) && inRange 64 n) || (decide (n ≤ 0) && b.isEmpty && inRange 64 n)

def conformsHeader : Val → Bool
  | .cons (.int kl) (.cons (.str k) (.cons (.int vl) (.cons (.str v) .nil))) => lenOk kl k && lenOk vl v
  | _ => false

def conformsRec : Val → Bool
  | .cons (.int len) (.cons (.int at_) (.cons (.int ts) (.cons (.int off) (.cons (.int kl) (.cons (.str k)
      (.cons (.int vl) (.cons (.str v) (.cons (.arr hs) .nil)))))))) =>
    inRange 64 len && inRange 8 at_ && inRange 64 ts && inRange 64 off && lenOk kl k && lenOk vl v && allChain conformsHeader hs &&
      inRange 64 (hs.chainLen : Int)
  | _ => false

def conformsPrim : Prim → Val → Bool
  | .recordV0, v => conformsRec v
  | .bool, .bool _ => true
  | .int8, .int i => inRange 8 i
  | .int16, .int i => inRange 16 i
  | .int32, .int i => inRange 32 i
  | .int64, .int i => inRange 64 i
  | .str, .str b | .nstr, .str b => b.length < 32768
  | .nstr, .nullStr => true
  | .bytes, .bytes none => true
  | .bytes, .bytes (some b) => b.length < 2 ^ 31
  | _, _ => false

def Ty.recordFree : Ty → Bool
  | .prim .recordV0 => false
  | .prim _ => true
  | .arr e => Ty.recordFree e
  | .unit => true
  | .seq _ a r => Ty.recordFree a && Ty.recordFree r

/-- the values the (non-flexible) encoder is defined on: integers in range, lengths that fit
    their prefix, at most 65535 array elements, each taking at least one byte -/
def conforms : Ty → Val → Bool
  | .prim p, v => conformsPrim p v
  | .unit, .nil => true
  | .unit, _ => false
  | .seq _ a rest, .cons v vs => conforms a v && conforms rest vs
  | .seq _ _ _, _ => false
  | .arr _, .null => true
  | .arr e, .arr es => decide (es.chainLen ≤ 65535) && allChain (fun v => conforms e v && decide (1 ≤ (enc false e v).length)) es
  | .arr _, _ => false

/-- what a decoder without a null string reports for a value -/
def normV : Val → Val
  | .nullStr => .str []
  | .arr es => .arr (normV es)
  | .cons v r => .cons (normV v) (normV r)
  | v => v

end KsVerif.Kafka.Spec

namespace KsVerif.Kafka.Spec
open KsVerif KsVerif.Kafka KsVerif.Generated.KafkaProtocol

/-! ### messages and what must be reported -/

inductive Body where
  | typed (ty : Ty) (flex : Bool) (v : Val)
  | raw (b : Bytes)            -- an API the dissector has no layout for
  deriving Repr

structure CMsg where
  api : Int
  ver : Int
  corr : Int
  clientId : Option Bytes
  body : Body
  deriving Repr

structure SMsg where
  corr : Int
  body : Body
  deriving Repr

def encBody : Body → Bytes
  | .typed ty flex v => enc flex ty v
  | .raw b => b

def Body.flex : Body → Bool
  | .typed _ f _ => f
  | .raw _ => false

/-- request: size, api key, version, correlation id, client id (nullable string, never compact),
    the header's tagged fields in a flexible version, body -/
def encRequest (m : CMsg) : Bytes :=
  let cid := match m.clientId with
    | some b => encInt 2 b.length ++ b
    | none => encInt 2 (-1)
  let rest := encInt 2 m.api ++ encInt 2 m.ver ++ encInt 4 m.corr ++ cid ++ (if m.body.flex then [0] else []) ++ encBody m.body
  encInt 4 rest.length ++ rest

def encResponse (m : SMsg) : Bytes :=
  let rest := encInt 4 m.corr ++ (if m.body.flex then [0] else []) ++ encBody m.body
  encInt 4 rest.length ++ rest

def leavesSx (ls : List Leaf) : Sx := .list (ls.map leafSx)

/-- the API keys of the Kafka protocol (0 … 49) and their names - written from the protocol,
    not taken from the dissector -/
def protocolApiNames : List String := [
  "Produce", "Fetch", "ListOffsets", "Metadata", "LeaderAndIsr", "StopReplica", "UpdateMetadata", "ControlledShutdown",
  "OffsetCommit", "OffsetFetch", "FindCoordinator", "JoinGroup", "Heartbeat", "LeaveGroup", "SyncGroup", "DescribeGroups",
  "ListGroups", "SaslHandshake", "ApiVersions", "CreateTopics", "DeleteTopics", "DeleteRecords", "InitProducerId",
  "OffsetForLeaderEpoch", "AddPartitionsToTxn", "AddOffsetsToTxn", "EndTxn", "WriteTxnMarkers", "TxnOffsetCommit",
  "DescribeAcls", "CreateAcls", "DeleteAcls", "DescribeConfigs", "AlterConfigs", "AlterReplicaLogDirs", "DescribeLogDirs",
  "SaslAuthenticate", "CreatePartitions", "CreateDelegationToken", "RenewDelegationToken", "ExpireDelegationToken",
  "DescribeDelegationToken", "DeleteGroups", "ElectLeaders", "IncrementalAlterConfigs", "AlterPartitionReassignments",
  "ListPartitionReassignments", "OffsetDelete", "DescribeClientQuotas", "AlterClientQuotas"]

/-- the name an item must report for an API key: the protocol's name, the number for a key the
    protocol (as of these 50 keys) does not define -/
def specApiName (api : Int) : String :=
  if 0 ≤ api then (protocolApiNames[api.toNat]?).getD (toString api) else toString api

def apiNameOf (_table : List (Int × String)) (api : Int) : String := specApiName api

/-- one item per answered request of a decoded API, in the order of the responses -/
def expected (names : List (Int × String)) (cs : List CMsg) (ss : List SMsg) : Sx :=
  let items := ss.filterMap fun s =>
    match cs.find? fun c => c.corr == s.corr with
    | none => none
    | some c =>
      match c.body, s.body with
      | .typed _ _ qv, .typed _ _ rv =>
        some (Sx.list [
          .list [.atom "hdr", Sx.ofNat ((encRequest c).length - 4), Sx.ofInt c.api, .atom (apiNameOf names c.api), Sx.ofInt c.ver,
                 Sx.ofInt c.corr, Sx.ofBytes (c.clientId.getD [])],
          leavesSx (leaves qv),
          .list [.atom "rhdr", Sx.ofNat ((encResponse s).length - 4), Sx.ofInt s.corr],
          leavesSx (leaves rv)])
      | _, _ => none
  let unanswered := (cs.filter fun c => !(ss.any fun s => s.corr == c.corr)).length
  .list [.list [.atom "c", .atom "eof"], .list [.atom "s", .atom "eof"], .list (.atom "items" :: items),
         .list [.atom "left", Sx.ofNat unanswered]]

/-- the field values of a printed payload tree, in order -/
partial def sxLeaves : Sx → List Leaf
  | .atom "null" => [.int (-1)]
  | .atom "nullbytes" => [.null]
  | .atom "true" => [.int 1]
  | .atom "false" => [.int 0]
  | .atom "nopayload" => []
  | .list [.atom "y", b] => [.bytes (b.asBytes?.getD [])]
  | .list (.atom "S" :: fs) => fs.flatMap fun f => match f with
    | .list [_, v] => sxLeaves v
    | _ => []
  | .list (.atom "A" :: es) => .int es.length :: es.flatMap sxLeaves
  | s => match s.asBytes?, s.asInt? with
    | some b, _ => [.bytes b]
    | none, some i => [.int i]
    | _, _ => []

/-- an observation (of the dissector or of the model) reduced to what `expected` states -/
def summary : Sx → Sx
  | .list [c, s, .list (.atom "items" :: items), left] =>
    .list [c, s, .list (.atom "items" :: items.map fun it => match it with
      | .list [.list [.atom "req", size, api, name, ver, corr, cid, qp], .list [.atom "resp", rsize, rcorr, rp]] =>
        .list [.list [.atom "hdr", size, api, name, ver, corr, cid], leavesSx (sxLeaves qp),
               .list [.atom "rhdr", rsize, rcorr], leavesSx (sxLeaves rp)]
      | x => x), left]
  | x => x

end KsVerif.Kafka.Spec
