/-
  Atomic operations on shared memory, as listed by `ksextract` from the Go sources
  (GenAtomicShapes.lean), and the grouping of a shape into atomic steps.
-/
namespace KsVerif

inductive AOp where
  | lock | unlock | deferUnlock
  | mapLoadAndDelete | mapStore | mapLoadOrStore | mapDelete | mapLoad
  | mapCas | mapSwap | mapCompareAndDelete | mapRange
  | atomicLoad | atomicStore | atomicSwap | atomicAdd | atomicCas
  | getIndex | incCount | incMatched | setEmittable | send | sleep
  | loopBegin | loopEnd
  | yield (point : String)
  | other (what : String)
  deriving DecidableEq, Repr, Inhabited

namespace AOp

def isYield : AOp → Bool
  | .yield _ => true
  | _ => false

end AOp

/-- A shape with the yield markers removed. -/
def stripYields (s : List AOp) : List AOp := s.filter (fun o => !o.isYield)

end KsVerif
