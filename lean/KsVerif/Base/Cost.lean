/-
  Judge of the cost families (C02): measured allocation and wall time of the real Dissect and
  later stages against a fixed linear function of the bytes in the stream.
-/
import KsVerif.Base.Verdict

namespace KsVerif.Cost
open KsVerif

def allocBound (n : Nat) : Nat := 4096 * n + 524288      -- 4 KiB per byte + 512 KiB
def msBound (n : Nat) : Nat := 2000 + n / 100

def getNat (xs : List Sx) (key : String) : Option Nat :=
  match xs.dropWhile (fun x => x.toStr != key) with
  | _ :: v :: _ => v.asNat?
  | _ => none

def getSym (xs : List Sx) (key : String) : Option String :=
  match xs.dropWhile (fun x => x.toStr != key) with
  | _ :: v :: _ => v.asSym?
  | _ => none

def judge (payload impl : String) : Verdict :=
  let label := match Sx.parse payload with
    | some (.list [_, _, _, .atom l]) => l
    | some (.list [_, _, _, .atom l, _]) => l
    | some (.list [_, _, _, .atom l, _, _, _]) => l
    | _ => "?"
  match Sx.parse impl with
  | some (.list xs) =>
    match getNat xs "n", getNat xs "alloc", getNat xs "ms", getSym xs "end" with
    | some n, some alloc, some ms, some e =>
      let crashed := e.startsWith "panic" || e.startsWith "stage-panic"
      -- growth cases: the same shape at a smaller size n0 was measured first; the allocation at n may
      -- not exceed twice what the smaller run predicts for n bytes (a + b n <= 2 (a + b n0) n / n0)
      let growthOk := match getNat xs "n0", getNat xs "alloc0" with
        | some n0, some alloc0 => n0 == 0 || alloc * n0 ≤ 2 * alloc0 * n + 65536 * n0
        | _, _ => true
      let ok := !crashed && alloc ≤ allocBound n && ms ≤ msBound n && growthOk
      let big := match (label.splitOn "=").getLast?.bind String.toInt? with
        | some v => v ≥ 1000000 || v < 0
        | none => false
      -- the header list of one HTTP/2 block may expand to the library's default cut of 16 MB whatever the bytes seen
      -- (recorded finding h2-hpack-expansion): the absolute bounds are excused on that shape, the growth rule is not
      let bomb := (label.splitOn "hpack-repeat").length > 1
      let tags := (if label.startsWith "h2-" && big then ["h2-frame-prealloc"] else []) ++
        (if bomb && !crashed && growthOk then ["h2-hpack-expansion"] else [])
      { corr := true, implSpec := ok, modelSpec := true, tags, nontrivial := true,
        cls := (label.splitOn "=").headD "?",
        model := "-", spec := s!"no panic; alloc <= {allocBound n}; ms <= {msBound n}; per-byte allocation at most twice that of the smaller run" }
    | _, _, _, _ => { Verdict.bad "bad-observation" with implSpec := false, corr := true }
  | _ =>
    -- the harness was killed on this case (timeout / crash): the dissection did not return
    { corr := true, implSpec := false, modelSpec := true, nontrivial := true, cls := "no-return",
      model := "-", spec := "Dissect returns within the time limit" }

end KsVerif.Cost
