import KsVerif.Base.Sx
namespace KsVerif

/-- What the driver reports for one case of the correspondence check. -/
structure Verdict where
  corr : Bool          -- implementation observation = model observation
  implSpec : Bool      -- the implementation's observation satisfies the spec
  modelSpec : Bool     -- the model's observation satisfies the spec
  tags : List String := []   -- defect tags fired in the model execution
  nontrivial : Bool := true
  cls : String := "-"  -- class label for the input distribution
  model : String
  spec : String

def Verdict.bad (why : String) : Verdict :=
  { corr := false, implSpec := false, modelSpec := false, tags := [], nontrivial := false,
    cls := "bad", model := why, spec := "-" }

def Verdict.line (v : Verdict) : String :=
  let b (x : Bool) := if x then "1" else "0"
  let tags := if v.tags.isEmpty then "-" else ",".intercalate v.tags
  s!"{b v.corr}\t{b v.implSpec}\t{b v.modelSpec}\t{tags}\t{b v.nontrivial}\t{v.cls}\t{v.model}\t{v.spec}"

/-- Verdict of an exactness family: the spec determines the observation. -/
def Verdict.exact (model spec impl : String) (tags : List String := []) (nontrivial := true)
    (cls := "-") : Verdict :=
  { corr := model == impl, implSpec := spec == impl, modelSpec := spec == model, tags, nontrivial,
    cls, model, spec }

end KsVerif
