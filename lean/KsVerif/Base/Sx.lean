/-
  S-expressions: the canonical wire form of the line protocol between the Go harness
  (real code), the Lean driver (model + spec) and bin/check.

  atom  ::= [^ ()\t\n]+          symbols, decimal integers, `#<hex>` byte strings
  sx    ::= atom | '(' sx* ')'

  This file is protocol glue (trusted base, exercised on every run by the
  correspondence check); no property theorem depends on it.
-/
namespace KsVerif

inductive Sx where
  | atom : String → Sx
  | list : List Sx → Sx
  deriving Inhabited, Repr

namespace Sx

mutual
  partial def toStr : Sx → String
    | .atom s => s
    | .list xs => "(" ++ listToStr xs ++ ")"
  partial def listToStr : List Sx → String
    | [] => ""
    | [x] => toStr x
    | x :: xs => toStr x ++ " " ++ listToStr xs
end

instance : ToString Sx := ⟨toStr⟩

/-- Tokenise: parentheses are their own tokens, blanks separate. -/
def tokens (s : String) : List String :=
  let flush (cur : List Char) (acc : List String) : List String :=
    if cur.isEmpty then acc else (String.ofList cur.reverse) :: acc
  let rec go (cs : List Char) (cur : List Char) (acc : List String) : List String :=
    match cs with
    | [] => (flush cur acc).reverse
    | c :: rest =>
      if c == '(' || c == ')' then go rest [] (String.singleton c :: flush cur acc)
      else if c == ' ' || c == '\t' || c == '\n' || c == '\r' then go rest [] (flush cur acc)
      else go rest (c :: cur) acc
  go s.toList [] []

/-- Parse one expression from a token list. Fuel = number of tokens. -/
def parseToks : Nat → List String → Option (Sx × List String)
  | 0, _ => none
  | fuel + 1, toks =>
    match toks with
    | [] => none
    | ")" :: _ => none
    | "(" :: rest =>
      let rec items (f : Nat) (ts : List String) (acc : List Sx) : Option (Sx × List String) :=
        match f with
        | 0 => none
        | f + 1 =>
          match ts with
          | [] => none
          | ")" :: r => some (.list acc.reverse, r)
          | _ =>
            match parseToks fuel ts with
            | none => none
            | some (x, r) => items f r (x :: acc)
      items (fuel + 1) rest []
    | a :: rest => some (.atom a, rest)

def parse (s : String) : Option Sx :=
  let ts := tokens s
  match parseToks (ts.length + 1) ts with
  | some (x, []) => some x
  | _ => none

/-! ### atoms -/

def hexDigit (n : Nat) : Char :=
  if n < 10 then Char.ofNat (48 + n) else Char.ofNat (87 + n)

def hexOfBytes (bs : List UInt8) : String :=
  String.ofList (bs.flatMap fun b => [hexDigit (b.toNat / 16), hexDigit (b.toNat % 16)])

def hexVal (c : Char) : Option Nat :=
  if '0' ≤ c ∧ c ≤ '9' then some (c.toNat - 48)
  else if 'a' ≤ c ∧ c ≤ 'f' then some (c.toNat - 87)
  else if 'A' ≤ c ∧ c ≤ 'F' then some (c.toNat - 55)
  else none

def bytesOfHexChars : List Char → Option (List UInt8)
  | [] => some []
  | [_] => none
  | a :: b :: rest =>
    match hexVal a, hexVal b, bytesOfHexChars rest with
    | some x, some y, some r => some (UInt8.ofNat (x * 16 + y) :: r)
    | _, _, _ => none

def ofBytes (bs : List UInt8) : Sx := .atom ("#" ++ hexOfBytes bs)
def ofNat (n : Nat) : Sx := .atom (toString n)
def ofInt (n : Int) : Sx := .atom (toString n)
def ofBool (b : Bool) : Sx := .atom (if b then "true" else "false")
def sym (s : String) : Sx := .atom s

def asBytes? : Sx → Option (List UInt8)
  | .atom s =>
    match s.toList with
    | '#' :: cs => bytesOfHexChars cs
    | _ => none
  | _ => none

def asInt? : Sx → Option Int
  | .atom s => s.toInt?
  | _ => none

def asNat? : Sx → Option Nat
  | .atom s => s.toNat?
  | _ => none

def asSym? : Sx → Option String
  | .atom s => some s
  | _ => none

def asList? : Sx → Option (List Sx)
  | .list xs => some xs
  | _ => none

def asBool? : Sx → Option Bool
  | .atom "true" => some true
  | .atom "false" => some false
  | _ => none

/-- The text of a byte string, for building observations (bytes as Latin-1 code points are
    never printed raw; strings travel as hex of their UTF-8 bytes). -/
def ofString (s : String) : Sx := ofBytes s.toUTF8.toList

end Sx
end KsVerif
