/-
  HTTP/1.x as the dissector sees it.

  * `Wire`: a parser for the message grammar the generators produce (request / status line,
    header lines, Content-Length, chunked, close-delimited bodies).  It stands for
    `http.ReadRequest` / `http.ReadResponse` + `io.ReadAll(Body)` of net/http — library code,
    modelled, not verified; validated by the correspondence check.
  * the repository's own logic: the Dissect loop of pkg/extensions/http (one message per
    iteration, the request / response ordinals of the CounterPair, the pairing key), the
    matcher (k-th request with k-th response) and what an item reports.
  * `Spec`: an independent encoder from abstract exchanges to wire bytes, and what must be
    reported for each exchange (C03).
-/
import KsVerif.Base.Sx

namespace KsVerif.Http

abbrev Bytes := List UInt8

def bytesOfString (s : String) : Bytes := s.toList.map fun c => c.toNat.toUInt8
def crlf : Bytes := [13, 10]

structure Message where
  isRequest : Bool
  method : Bytes := []        -- requests
  target : Bytes := []
  status : Nat := 0           -- responses
  minor : Nat := 1
  headers : List (Bytes × Bytes) := []    -- as on the wire: name, value (OWS trimmed)
  body : Bytes := []
  deriving Repr, Inhabited

namespace Wire

/-- split at the first CR LF -/
def takeLine : Bytes → Option (Bytes × Bytes)
  | [] => none
  | [_] => none
  | a :: b :: rest =>
    if a = 13 ∧ b = 10 then some ([], rest)
    else (takeLine (b :: rest)).map fun (l, r) => (a :: l, r)

def trimOWS (b : Bytes) : Bytes :=
  let isWs (x : UInt8) := x = 32 || x = 9
  ((b.dropWhile isWs).reverse.dropWhile isWs).reverse

def splitOnByte (sep : UInt8) (b : Bytes) : List Bytes :=
  b.foldr (fun x acc => match acc with
    | [] => if x = sep then [[], []] else [[x]]
    | cur :: more => if x = sep then [] :: cur :: more else (x :: cur) :: more) [[]]

def lower (b : Bytes) : Bytes := b.map fun x => if 65 ≤ x ∧ x ≤ 90 then x + 32 else x

/-- header lines up to the empty line -/
def parseHeaders : Nat → Bytes → Option (List (Bytes × Bytes) × Bytes)
  | 0, _ => none
  | fuel + 1, bs =>
    match takeLine bs with
    | none => none
    | some (line, rest) =>
      if line.isEmpty then some ([], rest)
      else
        let name := line.takeWhile (· != 58)
        let value := trimOWS ((line.dropWhile (· != 58)).drop 1)
        if name.length == line.length then none      -- no colon
        else (parseHeaders fuel rest).map fun (hs, r) => ((name, value) :: hs, r)

def headerValue (hs : List (Bytes × Bytes)) (name : String) : Option Bytes :=
  (hs.find? fun h => lower h.1 == bytesOfString name).map (·.2)

def decNat? (b : Bytes) : Option Nat :=
  if b.isEmpty || !b.all (fun x => 48 ≤ x && x ≤ 57) then none
  else some (b.foldl (fun acc x => acc * 10 + (x.toNat - 48)) 0)

def hexNat? (b : Bytes) : Option Nat :=
  let digit (x : UInt8) : Option Nat :=
    if 48 ≤ x ∧ x ≤ 57 then some (x.toNat - 48)
    else if 97 ≤ x ∧ x ≤ 102 then some (x.toNat - 87)
    else if 65 ≤ x ∧ x ≤ 70 then some (x.toNat - 55) else none
  if b.isEmpty then none else b.foldl (fun acc x => match acc, digit x with
    | some a, some d => some (a * 16 + d)
    | _, _ => none) (some 0)

/-- chunked body: size line, data, CR LF, … until the 0 chunk and the empty trailer -/
def parseChunks : Nat → Bytes → Option (Bytes × Bytes)
  | 0, _ => none
  | fuel + 1, bs =>
    match takeLine bs with
    | none => none
    | some (sizeLine, rest) =>
      match hexNat? (sizeLine.takeWhile (· != 59)) with
      | none => none
      | some 0 =>
        -- trailer section: up to the empty line
        (parseHeaders (rest.length + 1) rest).map fun (_, r) => ([], r)
      | some n =>
        if rest.length < n + 2 then none
        else
          let data := rest.take n
          match (rest.drop n) with
          | 13 :: 10 :: r => (parseChunks fuel r).map fun (more, r') => (data ++ more, r')
          | _ => none

/-- the trailer fields behind the last chunk of a chunked body (net/http keeps them in `Trailer`; the handlers add
    them to the header fields once the body has been read) -/
def chunkTrailers : Nat → Bytes → List (Bytes × Bytes)
  | 0, _ => []
  | fuel + 1, bs =>
    match takeLine bs with
    | none => []
    | some (sizeLine, rest) =>
      match hexNat? (sizeLine.takeWhile (· != 59)) with
      | none => []
      | some 0 => ((parseHeaders (rest.length + 1) rest).map (·.1)).getD []
      | some n =>
        if rest.length < n + 2 then []
        else
          match (rest.drop n) with
          | 13 :: 10 :: r => chunkTrailers fuel r
          | _ => []

inductive Framing where
  | none | length (n : Nat) | chunked | untilClose
  deriving Repr

def trailersOf (f : Framing) (bs : Bytes) : List (Bytes × Bytes) :=
  match f with
  | .chunked => chunkTrailers (bs.length + 1) bs
  | _ => []

def framingOf (isRequest : Bool) (status : Nat) (hs : List (Bytes × Bytes)) : Framing :=
  if !isRequest && (status / 100 == 1 || status == 204 || status == 304) then .none
  else
    match headerValue hs "transfer-encoding" with
    | some v => if lower v == bytesOfString "chunked" then .chunked else if isRequest then .none else .untilClose
    | none =>
      match (headerValue hs "content-length").bind decNat? with
      | some n => .length n
      | none => if isRequest then .none else .untilClose

def parseBody (f : Framing) (bs : Bytes) : Option (Bytes × Bytes) :=
  match f with
  | .none => some ([], bs)
  | .length n => if bs.length < n then none else some (bs.take n, bs.drop n)
  | .chunked => parseChunks (bs.length + 1) bs
  | .untilClose => some (bs, [])

def versionMinor? (v : Bytes) : Option Nat :=
  if v == bytesOfString "HTTP/1.1" then some 1 else if v == bytesOfString "HTTP/1.0" then some 0 else none

/-- one request from the head of the stream -/
def parseRequest (bs : Bytes) : Option (Message × Bytes) :=
  match takeLine bs with
  | none => none
  | some (line, rest) =>
    match splitOnByte 32 line with
    | [m, t, v] =>
      match versionMinor? v, parseHeaders (rest.length + 1) rest with
      | some minor, some (hs, rest) =>
        (parseBody (framingOf true 0 hs) rest).map fun (body, r) =>
          ({ isRequest := true, method := m, target := t, minor,
             headers := hs ++ trailersOf (framingOf true 0 hs) rest, body }, r)
      | _, _ => none
    | _ => none

/-- one response -/
def parseResponse (bs : Bytes) : Option (Message × Bytes) :=
  match takeLine bs with
  | none => none
  | some (line, rest) =>
    match splitOnByte 32 line with
    | v :: code :: _ =>
      match versionMinor? v, decNat? code, parseHeaders (rest.length + 1) rest with
      | some minor, some status, some (hs, rest) =>
        (parseBody (framingOf false status hs) rest).map fun (body, r) =>
          ({ isRequest := false, status, minor, headers := hs ++ trailersOf (framingOf false status hs) rest, body }, r)
      | _, _, _ => none
    | _ => none

/-- the messages of one half, until the stream is exhausted or stops parsing -/
def parseAll (isRequest : Bool) : Nat → Bytes → List Message
  | 0, _ => []
  | fuel + 1, bs =>
    if bs.isEmpty then []
    else match (if isRequest then parseRequest bs else parseResponse bs) with
      | none => []
      | some (m, rest) => m :: parseAll isRequest fuel rest

end Wire

/-! ### what an item reports -/

/-- textproto.CanonicalMIMEHeaderKey for token names -/
def canonicalName (n : Bytes) : Bytes :=
  let rec go (upper : Bool) : Bytes → Bytes
    | [] => []
    | x :: rest =>
      let y := if upper then (if 97 ≤ x ∧ x ≤ 122 then x - 32 else x) else (if 65 ≤ x ∧ x ≤ 90 then x + 32 else x)
      y :: go (x = 45) rest
  go true n

/-- framing and host headers are rebuilt by net/http and the HAR conversion: not compared (`Trailer`, the
    announcement of trailer fields, is consumed by net/http like `Transfer-Encoding`) -/
def isFramingHeader (n : Bytes) : Bool :=
  let l := Wire.lower n
  l == bytesOfString "host" || l == bytesOfString "content-length" || l == bytesOfString "transfer-encoding" ||
    l == bytesOfString "trailer"

/-- net/http's `fixPragmaCacheControl`: a message whose first `Pragma` value is `no-cache` and that carries no
    `Cache-Control` header is handed over with `Cache-Control: no-cache` added (library behaviour, modelled: the
    recorded finding http-pragma-cache-control is that the entry then lists a header nobody sent) -/
def pragmaFix (hs : List (Bytes × Bytes)) : List (Bytes × Bytes) :=
  if ((hs.filter fun h => Wire.lower h.1 == bytesOfString "pragma").head?.map (·.2)) == some (bytesOfString "no-cache") &&
      !hs.any (fun h => Wire.lower h.1 == bytesOfString "cache-control")
  then hs ++ [(bytesOfString "Cache-Control", bytesOfString "no-cache")] else hs

def reportedHeaders (hs : List (Bytes × Bytes)) : List (Bytes × Bytes) :=
  let kept := (hs.filter fun h => !isFramingHeader h.1).map fun h => (canonicalName h.1, h.2)
  kept.mergeSort fun a b =>
    Sx.hexOfBytes a.1 < Sx.hexOfBytes b.1 || (Sx.hexOfBytes a.1 == Sx.hexOfBytes b.1 && Sx.hexOfBytes a.2 ≤ Sx.hexOfBytes b.2)

/-- the header fields of a message as sent (the spec's side: nothing invented) -/
def headersSx (hs : List (Bytes × Bytes)) : Sx :=
  .list (.atom "hdr" :: (reportedHeaders hs).map fun (n, v) => .list [Sx.ofBytes n, Sx.ofBytes v])

/-- the header fields the model predicts the dissector to report: those sent, after net/http's Pragma fix -/
def messageSx (m : Message) : Sx :=
  if m.isRequest then
    .list [.atom "req", Sx.ofBytes m.method, Sx.ofBytes m.target, Sx.ofNat m.minor, headersSx (pragmaFix m.headers), Sx.ofBytes m.body]
  else
    .list [.atom "resp", Sx.ofNat m.status, Sx.ofNat m.minor, headersSx (pragmaFix m.headers), Sx.ofBytes m.body]

/-- the dissection of both halves (client first): the k-th request is paired with the k-th
    response (ordinals of the CounterPair); unanswered requests stay in the matcher -/
def observe (cb sb : Bytes) : Sx :=
  let reqs := Wire.parseAll true (cb.length + 1) cb
  -- an interim response (1xx other than 101 Switching Protocols) is not the answer: it is passed over
  let resps := (Wire.parseAll false (sb.length + 1) sb).filter fun m => !(100 ≤ m.status && m.status < 200 && m.status != 101)
  let items := reqs.zip resps
  .list [.list (.atom "items" :: items.map fun (q, r) => .list [messageSx q, messageSx r, .atom "cs"]),
         .list [.atom "left", Sx.ofNat (reqs.length - items.length), Sx.ofNat (resps.length - items.length)]]

/-! ### spec -/

namespace Spec

inductive BodyFraming where
  | none | cl | chunked | close
  deriving Repr, DecidableEq

structure Msg where
  isRequest : Bool
  method : Bytes := []
  target : Bytes := []
  status : Nat := 0
  reason : Bytes := []
  minor : Nat := 1
  headers : List (Bytes × Bytes) := []
  framing : BodyFraming := .none
  body : Bytes := []
  /-- interim responses (1xx other than 101) the server sends in front of this response -/
  pre : List Nat := []
  deriving Repr

def dec (n : Nat) : Bytes := bytesOfString (toString n)
def hex (n : Nat) : Bytes := bytesOfString (String.ofList (Nat.toDigits 16 n))

def chunksOf : Nat → Bytes → Bytes
  | 0, _ => []
  | fuel + 1, b =>
    if b.isEmpty then bytesOfString "0" ++ crlf ++ crlf
    else
      let n := min 7 b.length
      hex n ++ crlf ++ b.take n ++ crlf ++ chunksOf fuel (b.drop n)

def encMsgCore (m : Msg) : Bytes :=
  let start := if m.isRequest then m.method ++ [32] ++ m.target ++ bytesOfString " HTTP/1." ++ dec m.minor
    else bytesOfString "HTTP/1." ++ dec m.minor ++ [32] ++ dec m.status ++ [32] ++ m.reason
  let hdrs := (m.headers.map fun (n, v) => n ++ bytesOfString ": " ++ v ++ crlf).flatten
  start ++ crlf ++ hdrs ++
    (match m.framing with
     | .cl => bytesOfString "Content-Length: " ++ dec m.body.length ++ crlf ++ crlf ++ m.body
     | .chunked => bytesOfString "Transfer-Encoding: chunked" ++ crlf ++ crlf ++ chunksOf (m.body.length + 1) m.body
     | .close => crlf ++ m.body
     | .none => crlf)

/-- an interim response as the reference encoder writes it: "HTTP/1.1 <st> Interim", no header, no body -/
def interimMsg (st : Nat) : Msg := { isRequest := false, status := st, reason := bytesOfString "Interim", minor := 1 }

/-- the message on the wire: its interim responses (if any) in front of it -/
def encMsg (m : Msg) : Bytes :=
  (m.pre.map fun st => encMsgCore (interimMsg st)).flatten ++ encMsgCore m

theorem encMsg_nopre (m : Msg) (h : m.pre = []) : encMsg m = encMsgCore m := by
  simp [encMsg, h]

/-- what must be reported for an exchange -/
def expectedItem (q r : Msg) : Sx :=
  .list [
    .list [.atom "req", Sx.ofBytes q.method, Sx.ofBytes q.target, Sx.ofNat q.minor, headersSx q.headers, Sx.ofBytes q.body],
    .list [.atom "resp", Sx.ofNat r.status, Sx.ofNat r.minor, headersSx r.headers, Sx.ofBytes r.body],
    .atom "cs"]

def expected (conv : List (Msg × Msg)) : Sx :=
  .list [.list (.atom "items" :: conv.map fun (q, r) => expectedItem q r), .list [.atom "left", Sx.ofNat 0, Sx.ofNat 0]]

/-! what Analyze must derive from the request target (net/url for the grammar generated) -/

def hexDigit? (x : UInt8) : Option Nat :=
  if 48 ≤ x ∧ x ≤ 57 then some (x.toNat - 48)
  else if 97 ≤ x ∧ x ≤ 102 then some (x.toNat - 87)
  else if 65 ≤ x ∧ x ≤ 70 then some (x.toNat - 55) else none

/-- percent-decoding; in a query component `+` is a space -/
def pctDecode (plusIsSpace : Bool) : Bytes → Bytes
  | 37 :: a :: b :: rest =>
    match hexDigit? a, hexDigit? b with
    | some x, some y => UInt8.ofNat (16 * x + y) :: pctDecode plusIsSpace rest
    | _, _ => 37 :: pctDecode plusIsSpace (a :: b :: rest)
  | c :: rest => (if plusIsSpace && c = 43 then 32 else c) :: pctDecode plusIsSpace rest
  | [] => []

/-- origin-form, or absolute-form `http://authority/path?query` -/
def originForm (target : Bytes) : Bytes :=
  let pre := bytesOfString "http://"
  if target.take pre.length == pre then (target.drop pre.length).dropWhile (· != 47) else target

def pathOf (target : Bytes) : Bytes := pctDecode false ((originForm target).takeWhile (· != 63))

def rawQuery (target : Bytes) : Bytes := ((originForm target).dropWhile (· != 63)).drop 1

/-- the parameters in order of first occurrence of their key, each with all its values in order -/
def queryOf (target : Bytes) : List (Bytes × List Bytes) :=
  let pairs := (Wire.splitOnByte 38 (rawQuery target)).filter (!·.isEmpty) |>.map fun kv =>
    (pctDecode true (kv.takeWhile (· != 61)), pctDecode true ((kv.dropWhile (· != 61)).drop 1))
  let keys := (pairs.map (·.1)).eraseDups
  -- HTTPPayload.MarshalJSON sorts the query string by name and then by value (the deterministic order the property's
  -- anchors name): the values of a repeated name are reported in byte order, not in the order of the target
  keys.map fun k => (k, ((pairs.filter (·.1 == k)).map (·.2)).mergeSort fun a b => Sx.hexOfBytes a ≤ Sx.hexOfBytes b)

def expectedEntry (q r : Msg) : Sx :=
  let params := (queryOf q.target).mergeSort fun a b => Sx.hexOfBytes a.1 ≤ Sx.hexOfBytes b.1
  .list [.atom "e", Sx.ofBytes q.method, Sx.ofBytes (pathOf q.target),
    .list (.atom "q" :: params.map fun (k, vs) => .list [Sx.ofBytes k, match vs with
      | [v] => Sx.ofBytes v
      | vs => .list (.atom "l" :: vs.map Sx.ofBytes)]),
    Sx.ofNat r.status]

def expectedEntries (conv : List (Msg × Msg)) : Sx := .list (conv.map fun (q, r) => expectedEntry q r)

/-- the map Analyze builds from a name/value list: one entry per name, the values of a repeated
    name joined with "," in the order of the list; sorted by name for comparison -/
def mergeMap (l : List (Bytes × Bytes)) : List (Bytes × Bytes) :=
  let keys := (l.map (·.1)).eraseDups
  let m := keys.map fun k => (k, ([44] : Bytes).intercalate ((l.filter (·.1 == k)).map (·.2)))
  m.mergeSort fun a b => Sx.hexOfBytes a.1 ≤ Sx.hexOfBytes b.1

/-- RFC 7230 tchar -/
def isTokenByte (b : UInt8) : Bool :=
  (48 ≤ b && b ≤ 57) || (65 ≤ b && b ≤ 90) || (97 ≤ b && b ≤ 122) ||
  (bytesOfString "!#$%&'*+-.^_`|~").contains b

def validCookieValueByte (b : UInt8) : Bool := 32 ≤ b && b < 127 && b != 34 && b != 59 && b != 92

/-- one `name=value` as net/http accepts it (library behaviour, modelled): the name a non-empty
    token, the value - surrounding double quotes stripped - of printable bytes without `"`, `;`, `\` -/
def cookiePair (requireEq : Bool) (part : Bytes) : Option (Bytes × Bytes) :=
  let p := Wire.trimOWS part
  if p.isEmpty then none
  else if requireEq && !p.contains 61 then none
  else
    let name := Wire.trimOWS (p.takeWhile (· != 61))
    let raw := (p.dropWhile (· != 61)).drop 1
    let val := if raw.length > 1 && raw.head? == some 34 && raw.getLast? == some 34 then (raw.drop 1).dropLast else raw
    if name.isEmpty || !name.all isTokenByte || !val.all validCookieValueByte then none else some (name, val)

/-- request cookies: every `name=value` of every Cookie line, in wire order -/
def cookiesOf (headers : List (Bytes × Bytes)) : List (Bytes × Bytes) :=
  (headers.filter fun h => Wire.lower h.1 == bytesOfString "cookie").flatMap fun h =>
    (Wire.splitOnByte 59 h.2).filterMap (cookiePair false)

/-- response cookies: the first `name=value` of every Set-Cookie line -/
def setCookiesOf (headers : List (Bytes × Bytes)) : List (Bytes × Bytes) :=
  (headers.filter fun h => Wire.lower h.1 == bytesOfString "set-cookie").filterMap fun h =>
    ((Wire.splitOnByte 59 h.2).head?).bind (cookiePair true)

def sortPairs (l : List (Bytes × Bytes)) : List (Bytes × Bytes) :=
  l.mergeSort fun a b => Sx.hexOfBytes a.1 ++ "=" ++ Sx.hexOfBytes a.2 ≤ Sx.hexOfBytes b.1 ++ "=" ++ Sx.hexOfBytes b.2

end Spec

end KsVerif.Http
