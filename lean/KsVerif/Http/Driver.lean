import KsVerif.Http.H2
import KsVerif.Base.Verdict

namespace KsVerif.Http.Driver
open KsVerif KsVerif.Http

def framingOfSx : Sx → Spec.BodyFraming
  | .atom "cl" => .cl
  | .atom "chunked" => .chunked
  | .atom "close" => .close
  | _ => .none

def headersOfSx (x : Sx) : Option (List (Bytes × Bytes)) :=
  match x with
  | .list hs => hs.mapM fun (h : Sx) => match h with
    | Sx.list [n, v] => do some (← n.asBytes?, ← v.asBytes?)
    | _ => none
  | _ => none

def exchangeCore : Sx → Option (Spec.Msg × Spec.Msg)
  | .list [.atom "ex", .list [.atom "req", m, t, minor, hs, f, b], .list [.atom "resp", st, reason, rminor, rhs, rf, rb]] => do
    let q : Spec.Msg := { isRequest := true, method := ← m.asBytes?, target := ← t.asBytes?, minor := ← minor.asNat?,
                          headers := ← headersOfSx hs, framing := framingOfSx f, body := ← b.asBytes? }
    let r : Spec.Msg := { isRequest := false, status := ← st.asNat?, reason := ← reason.asBytes?, minor := ← rminor.asNat?,
                          headers := ← headersOfSx rhs, framing := framingOfSx rf, body := ← rb.asBytes? }
    some (q, r)
  | _ => none

/-- an exchange, possibly with interim responses `(pre 100 103 ...)` in front of the final one -/
def exchangeOfSx : Sx → Option (Spec.Msg × Spec.Msg)
  | .list [.atom "ex", q, r, .list (.atom "pre" :: sts)] => do
    let (q', r') ← exchangeCore (.list [.atom "ex", q, r])
    some (q', { r' with pre := ← sts.mapM Sx.asNat? })
  | x => exchangeCore x

def field? (obs : Sx) (name : String) : Option (List Sx) :=
  match obs with
  | .list parts => parts.findSome? fun
      | .list (.atom n :: rest) => if n == name then some rest else none
      | _ => none
  | _ => none

def strip (obs : Sx) : Sx :=
  match obs with
  | .list parts => .list (parts.filter fun p => match p with
      | .list (.atom "cbytes" :: _) => false
      | .list (.atom "sbytes" :: _) => false
      | _ => true)
  | x => x

def judgeConv (payload impl : String) : Verdict :=
  match Sx.parse payload with
  | some (.list exs) =>
    match exs.mapM exchangeOfSx with
    | none => .bad "bad-case"
    | some conv =>
      let cb := (conv.map fun (q, _) => Spec.encMsg q).flatten
      let sb := (conv.map fun (_, r) => Spec.encMsg r).flatten
      let implSx := Sx.parse impl
      let sameBytes := match implSx with
        | some o => ((field? o "cbytes").map fun l => (Sx.list l).toStr) == some (Sx.list [Sx.ofBytes cb]).toStr &&
                    ((field? o "sbytes").map fun l => (Sx.list l).toStr) == some (Sx.list [Sx.ofBytes sb]).toStr
        | none => false
      if !sameBytes && (implSx.bind (field? · "cbytes")).isSome then .bad "encoder-mismatch"
      else
        let m := observe cb sb
        let want := Spec.expected conv
        let implStripped := (implSx.map strip).map Sx.toStr
        let crashed := (impl.splitOn "panic").length > 1 || (impl.splitOn "crash").length > 1 || (impl.splitOn "timeout").length > 1
        -- HEAD: the server half cannot know the request method and reads a body that is not there
        let tags := (if conv.any (fun (q, r) => q.method == bytesOfString "HEAD" &&
              r.headers.any (fun h => Wire.lower h.1 == bytesOfString "content-length")) then ["http-head-response-body"] else []) ++
          -- net/http answers `Pragma: no-cache` without a Cache-Control header by adding `Cache-Control: no-cache`
          -- to the request or response it returns (RFC 7234 5.4 reading of the pair): the entry shows a header nobody sent
          (let invents := fun (hs : List (Bytes × Bytes)) =>
              ((hs.filter fun h => Wire.lower h.1 == bytesOfString "pragma").head?.map (·.2)) == some (bytesOfString "no-cache") &&
              !hs.any (fun h => Wire.lower h.1 == bytesOfString "cache-control")
           if conv.any (fun (q, r) => invents q.headers || invents r.headers) then ["http-pragma-cache-control"] else [])
        -- on a conversation tagged for HEAD the stream is mis-framed from the HEAD response on; how net/http
        -- recovers from the resulting garbage is outside the wire model: correspondence is not evaluated there.
        -- The Pragma invention is modelled (`pragmaFix`): on those conversations the model must predict the dissector.
        { corr := tags.contains "http-head-response-body" || implStripped == some m.toStr, implSpec := !crashed && implStripped == some want.toStr,
          modelSpec := m.toStr == want.toStr, tags, nontrivial := conv.length ≥ 1,
          cls := s!"n={min conv.length 4}", model := m.toStr, spec := want.toStr }
  | _ => .bad "bad-case"

def pairsOfSx : Sx → Option (List (Bytes × Bytes))
  | .list (.atom _ :: xs) => xs.mapM fun
      | .list [a, b] => do some ((← a.asBytes?), (← b.asBytes?))
      | _ => none
  | _ => none

/-- the entry map must be the merge of the item list -/
def mergedOk (l m : Sx) : Bool :=
  match pairsOfSx l, pairsOfSx m with
  | some l, some m => Spec.mergeMap l == m
  | _, _ => false

def entryOk (e : Sx) (q r : Spec.Msg) : Bool :=
  match e with
  | .list [.atom "e", m, p, qq, st, .list [.atom "qh", l1, m1], .list [.atom "qc", l2, m2],
      .list [.atom "rh", l3, m3], .list [.atom "rc", l4, m4]] =>
    (Sx.list [.atom "e", m, p, qq, st]).toStr == (Spec.expectedEntry q r).toStr &&
    mergedOk l1 m1 && mergedOk l2 m2 && mergedOk l3 m3 && mergedOk l4 m4 &&
    pairsOfSx l2 == some (Spec.cookiesOf q.headers) &&
    (pairsOfSx l4).map Spec.sortPairs == some (Spec.sortPairs (Spec.setCookiesOf r.headers))
  | _ => false

/-- http.entry: what Analyze builds: path, query parameters, method, status; the header and cookie
    maps of both sides (every value of a repeated name, joined, none dropped); the cookies themselves
    as sent on the Cookie / Set-Cookie lines -/
def judgeEntry (payload impl : String) : Verdict :=
  match Sx.parse payload with
  | some (.list exs) =>
    match exs.mapM exchangeOfSx with
    | none => .bad "bad-case"
    | some conv =>
      -- a HEAD exchange with a Content-Length disturbs the framing of what follows (recorded finding)
      let tags := if conv.any (fun (q, r) => q.method == bytesOfString "HEAD" &&
            r.headers.any (fun h => Wire.lower h.1 == bytesOfString "content-length")) then ["http-head-response-body"] else []
      let ok := match Sx.parse impl with
        | some (.list es) => es.length == conv.length && (es.zip conv).all fun (e, (q, r)) => entryOk e q r
        | _ => false
      let want := (Spec.expectedEntries conv).toStr ++ " + header / cookie maps = merge of the item lists; cookies = those of the Cookie / Set-Cookie lines"
      { corr := !tags.isEmpty || ok, implSpec := ok, modelSpec := true, tags, nontrivial := !conv.isEmpty,
        cls := s!"n={min conv.length 4}", model := want, spec := want }
  | _ => .bad "bad-case"

/-- http.split: the conversation of http.conv with each half delivered in pieces - the verdict of
    the unsplit conversation must hold unchanged -/
def judgeSplit (payload impl : String) : Verdict :=
  match Sx.parse payload with
  | some (.list [conv, _, _]) => judgeConv conv.toStr impl
  | _ => .bad "bad-case"

/-- http.rawsplit: streams that are not well-formed conversations, whole and in pieces: what is
    emitted and how the halves end must not depend on the segmentation -/
def judgeRawSplit (_payload impl : String) : Verdict :=
  match Sx.parse impl with
  | some (.list [.list [.atom "whole", a], .list [.atom "split", b]]) =>
    let ok := a.toStr == b.toStr
    let crashed := (impl.splitOn "panic").length > 1
    { corr := ok, implSpec := ok && !crashed, modelSpec := true, tags := [], nontrivial := true,
      cls := "rawsplit", model := a.toStr, spec := "the observation of the unsplit bytes" }
  | _ => { corr := false, implSpec := false, modelSpec := true, tags := [], nontrivial := true,
           cls := "no-observation", model := "-", spec := "the observation of the unsplit bytes" }

/-- http.h2c: an HTTP/1.1 connection upgraded to HTTP/2 in clear text.  One item for the upgrade
    exchange (the 101), one for the upgraded request answered on stream 1, one per later stream;
    nothing left in the matcher; and the same under byte-wise delivery. -/
def judgeH2c (payload impl : String) : Verdict :=
  let streams := match Sx.parse payload with
    | some (.list [.list (.atom "c" :: cfs), _]) =>
      some (cfs.filter fun f => match f with | .list (.atom "h" :: _) => true | _ => false).length
    | _ => none
  match Sx.parse impl, streams with
  | some (.list [.list [.atom "whole", a], .list [.atom "split", b]]), some k =>
    let items := match field? a "items" with | some xs => xs.length | none => 0
    let left := (field? a "left").map fun l => (Sx.list l).toStr
    let first101 := match field? a "items" with
      | some (.list [_, .list (.atom "resp" :: st :: _), _] :: _) => st.toStr == "101"
      | _ => false
    let ok := a.toStr == b.toStr && items == 2 + k && left == some "(0 0)" && first101
    { corr := ok, implSpec := ok && (impl.splitOn "panic").length == 1, modelSpec := true, tags := [], nontrivial := true,
      cls := s!"streams={k}", model := s!"items={2 + k}, left (0 0), same when split",
      spec := "the 101 exchange, the upgraded request answered on stream 1, one item per later stream; independent of segmentation" }
  | _, _ => { corr := false, implSpec := false, modelSpec := true, tags := [], nontrivial := true, cls := "no-observation",
              model := "-", spec := "-" }

/-! ### HTTP/2 -/

def h2FrameOfSx : Sx → Option H2.Frame
  | .list [.atom "h", sid, e, hs, _pieces] => do
    some (.headers (← sid.asNat?) (← headersOfSx hs) (← e.asBool?))
  | .list [.atom "d", sid, e, p] => do some (.data (← sid.asNat?) (← p.asBytes?) (← e.asBool?))
  | .list [.atom "dz", sid, e, len, fill] => do
    some (.data (← sid.asNat?) (List.replicate (← len.asNat?) (UInt8.ofNat (← fill.asNat?))) (← e.asBool?))
  | .list [.atom "dz1", sid, e, len, fill] => do
    some (.data (← sid.asNat?) (List.replicate (← len.asNat?) (UInt8.ofNat (← fill.asNat?))) (← e.asBool?))
  | .list [.atom "o", _, sid] => sid.asNat?.map .other
  | _ => none

/-- a half whose encoder raises its table to 8192 and then to 65536 before its next header block opens that
    block with two dynamic table size updates (RFC 7541 4.2 allows exactly that); x/net's hpack decoder refuses
    a second update once the table holds an entry, and the rest of the half is lost (recorded finding) -/
def twoSizeUpdates (fs : List Sx) : Bool :=
  -- pending: 0 none, 1 (min 8k, final 8k), 2 (min 8k, final 64k), 3 (min 64k, final 64k)
  let rec go : List Sx → Bool → Nat → Bool
    | [], _, _ => false
    | .list (.atom "h" :: _) :: rest, seen, pend => if seen && pend == 2 then true else go rest true 0
    | .list [.atom "o", .atom "tableup8k", _] :: rest, seen, _ => go rest seen 1
    | .list [.atom "o", .atom "tableup64k", _] :: rest, seen, pend => go rest seen (if pend == 1 || pend == 2 then 2 else 3)
    | _ :: rest, seen, pend => go rest seen pend
  go fs false 0

def judgeH2 (payload impl : String) : Verdict :=
  match Sx.parse payload with
  | some (.list [.list (.atom "c" :: cfs), .list (.atom "s" :: sfs)]) =>
    match cfs.mapM h2FrameOfSx, sfs.mapM h2FrameOfSx with
    | some cf, some sf =>
      let m := H2.observe cf sf
      let want := H2.Spec.expected cf sf
      let crashed := (impl.splitOn "panic").length > 1 || (impl.splitOn "crash").length > 1 || (impl.splitOn "timeout").length > 1
      -- gRPC marked on one direction only, and the other direction completes the pair
      let sids := H2.Spec.streamIds cf
      let oneSided := sids.any fun sid =>
        H2.grpcMarked (H2.Spec.streamHeaders (H2.Spec.ofStream sid cf)) != H2.grpcMarked (H2.Spec.streamHeaders (H2.Spec.ofStream sid sf))
      let tags : List String := (if oneSided then [] else []) ++
        (if twoSizeUpdates cfs || twoSizeUpdates sfs then ["h2-hpack-two-size-updates"] else [])
      { corr := !tags.isEmpty || m.toStr == impl, implSpec := !crashed && want.toStr == impl, modelSpec := m.toStr == want.toStr, tags,
        nontrivial := !cf.isEmpty && !sf.isEmpty, cls := s!"streams={min sids.length 4}",
        model := m.toStr, spec := want.toStr }
    | _, _ => .bad "bad-case"
  | _ => .bad "bad-case"

/-- http.trailer (C03): chunked messages with trailer fields.  Three ways: the dissector on the trailer form against
    the wire model on the same bytes (which reads the trailer part and adds its fields to the header fields, as the
    handlers do), both against the same conversation with those fields in the header block, and every trailer field
    among the reported header fields -/
def judgeTrailer (payload impl : String) : Verdict :=
  match Sx.parse payload, Sx.parse impl with
  | some (.list [ct, st, ch, sh, .list (.atom "want" :: want), _]), some (.list [.list [.atom "t", t], .list [.atom "h", h]]) =>
    match ct.asBytes?, st.asBytes?, ch.asBytes?, sh.asBytes? with
    | some ct, some st, some ch, some sh =>
      let m := observe ct st
      let mh := observe ch sh
      let present (o : Sx) := want.all fun w => (o.toStr.splitOn w.toStr).length > 1
      let crashed := (impl.splitOn "panic").length > 1
      { corr := t.toStr == m.toStr && h.toStr == mh.toStr,
        implSpec := t.toStr == h.toStr && present t && !crashed,
        modelSpec := m.toStr == mh.toStr && present m, tags := [], nontrivial := !want.isEmpty,
        cls := s!"trailers={want.length}", model := m.toStr,
        spec := "reported as the conversation with these fields in the header block: " ++ h.toStr }
    | _, _, _, _ => .bad "bad-case"
  | _, _ => { corr := false, implSpec := false, modelSpec := true, tags := [], nontrivial := true,
              cls := "no-observation", model := "-", spec := "trailer fields are reported with the header fields of their message" }

/-- http2.order: the conversation of http2.conv dissected client half first and server half first:
    the same items (as a set, protocol classification included) and the same left-overs -/
def judgeH2Order (_payload impl : String) : Verdict :=
  match Sx.parse impl with
  | some (.list [.list [.atom "cs", a], .list [.atom "sc", b]]) =>
    let ok := a.toStr == b.toStr
    let crashed := (impl.splitOn "panic").length > 1
    { corr := ok, implSpec := ok && !crashed, modelSpec := true, tags := [], nontrivial := true,
      cls := "order", model := a.toStr, spec := "what is reported does not depend on which half is dissected first" }
  | _ => { corr := false, implSpec := false, modelSpec := true, tags := [], nontrivial := true,
           cls := "no-observation", model := "-", spec := "what is reported does not depend on which half is dissected first" }

/-- the first bytes of the bodies removed: a DATA frame that opens a stream is kept by reference
    into the framer's read buffer (http2_assembler.go: "should not happen"), so the content of
    such a body is whatever the next frame left there; lengths, headers, pairing are compared -/
def stripBodies : Sx → Sx
  | .list [.list (.atom "items" :: items), left] =>
    .list [.list (.atom "items" :: items.map fun it => match it with
      | .list [.list [.atom "req", m, h, l, _], .list [.atom "resp", st, rh, rl, _], v] =>
        .list [.list [.atom "req", m, h, l], .list [.atom "resp", st, rh, rl], v]
      | x => x), left]
  | x => x

/-- frame scripts no HTTP/2 peer would send (DATA before HEADERS, frames after END_STREAM, bodies
    around the cap without headers): the model must predict the dissector and nothing may panic -/
def judgeH2Raw (payload impl : String) : Verdict :=
  match Sx.parse payload with
  | some (.list [.list (.atom "c" :: cfs), .list (.atom "s" :: sfs)]) =>
    match cfs.mapM h2FrameOfSx, sfs.mapM h2FrameOfSx with
    | some cf, some sf =>
      let m := H2.observe cf sf
      let crashed := (impl.splitOn "panic").length > 1 || (impl.splitOn "crash").length > 1 || (impl.splitOn "timeout").length > 1
      { corr := some (stripBodies m).toStr == (Sx.parse impl).map (fun o => (stripBodies o).toStr), implSpec := !crashed, modelSpec := true, tags := [],
        nontrivial := !cf.isEmpty || !sf.isEmpty, cls := "raw", model := m.toStr, spec := "no-panic" }
    | _, _ => .bad "bad-case"
  | _ => .bad "bad-case"

end KsVerif.Http.Driver
