/-
  HTTP/2 as pkg/extensions/http/http2_assembler.go and handlers.go (handleHTTP2Stream) see
  it: at the level of *decoded* frames — what `Framer.ReadFrame` with `ReadMetaHeaders`
  delivers (HEADERS + CONTINUATION already merged and HPACK-decoded).  Frame parsing and
  HPACK are golang.org/x/net/http2: library code, neither modelled nor verified here; the
  harness encodes the same abstract frames with that library's encoder (one HPACK encoder per
  half connection, so dynamic-table state is carried across requests on the wire).

  Model: fragments keyed by stream id, assembly on END_STREAM, the 1 MiB cap, request /
  response discrimination, gRPC classification, pairing by stream id.
  Spec (C04): one item per completed stream with that stream's own fields and the first
  1 MiB of its data; gRPC iff the stream carries a gRPC content type or a grpc-status field.
-/
import KsVerif.Http.H1

namespace KsVerif.Http.H2

inductive Frame where
  | headers (sid : Nat) (fields : List (Bytes × Bytes)) (endStream : Bool)
  | data (sid : Nat) (payload : Bytes) (endStream : Bool)
  | other (sid : Nat)        -- SETTINGS, PING, WINDOW_UPDATE, PRIORITY, RST_STREAM
  deriving Repr, Inhabited

def maxData : Nat := 1048576

structure Fragment where
  sid : Nat
  headers : List (Bytes × Bytes) := []
  data : Bytes := []
  deriving Repr

structure Msg where
  sid : Nat
  isRequest : Bool
  method : Bytes := []
  status : Nat := 0
  headers : List (Bytes × Bytes)
  data : Bytes
  isGrpc : Bool
  deriving Repr, Inhabited

def lowerEq (a : Bytes) (s : String) : Bool := Wire.lower a == bytesOfString s

def headerGet (hs : List (Bytes × Bytes)) (name : String) : Bytes :=
  ((hs.find? fun h => lowerEq h.1 name).map (·.2)).getD []

def containsBytes (hay needle : Bytes) : Bool :=
  (List.range (hay.length + 1)).any fun i => (hay.drop i).take needle.length == needle

def grpcMarked (hs : List (Bytes × Bytes)) : Bool :=
  headerGet hs "grpc-status" != [] || containsBytes (headerGet hs "content-type") (bytesOfString "application/grpc")

/-- appendFrame: the data of a stream never grows beyond `maxData` -/
def appendFrame (frags : List Fragment) (f : Frame) : List Fragment :=
  match f with
  | .headers sid fields _ =>
    if frags.any (·.sid == sid) then frags.map fun g => if g.sid == sid then { g with headers := g.headers ++ fields } else g
    else frags ++ [{ sid, headers := fields }]
  | .data sid payload _ =>
    if frags.any (·.sid == sid) then
      frags.map fun g => if g.sid == sid then { g with data := g.data ++ payload.take (maxData - g.data.length) } else g
    else frags ++ [{ sid, data := payload.take maxData }]
  | .other _ => frags

def isStreamEnd : Frame → Bool
  | .headers _ _ e => e
  | .data _ _ e => e
  | .other _ => false

def frameSid : Frame → Nat
  | .headers s _ _ => s
  | .data s _ _ => s
  | .other s => s

def decNat? (b : Bytes) : Option Nat := Wire.decNat? b

/-- readMessage on the decoded frames of one half: the messages assembled, in order -/
def assemble : List Fragment → List Frame → List Msg
  | _, [] => []
  | frags, f :: rest =>
    let frags := appendFrame frags f
    if isStreamEnd f then
      let sid := frameSid f
      match frags.find? (·.sid == sid) with
      | none => assemble frags rest
      | some g =>
        let frags' := frags.filter (·.sid != sid)
        let method := headerGet g.headers ":method"
        let status := headerGet g.headers ":status"
        if method != [] then
          { sid, isRequest := true, method, headers := g.headers, data := g.data, isGrpc := grpcMarked g.headers } :: assemble frags' rest
        else if status != [] then
          match decNat? status with
          | some code => { sid, isRequest := false, status := code, headers := g.headers, data := g.data, isGrpc := grpcMarked g.headers } :: assemble frags' rest
          | none => assemble frags' rest
        else assemble frags' rest
    else assemble frags rest

structure Item where
  request : Msg
  response : Msg
  grpc : Bool           -- the protocol variant the item carries
  deriving Repr

/-- registerRequest / registerResponse of the matcher: one open message per stream id; the
    counterpart completes the pair; a second message of the *same* kind under the same key
    removes the first and is itself dropped (LoadAndDelete, then `return nil`) -/
def register (acc : List Item × List Msg) (m : Msg) : List Item × List Msg :=
  match acc.2.find? (·.sid == m.sid) with
  | some o =>
    let rest := acc.2.filter (·.sid != m.sid)
    if o.isRequest == m.isRequest then (acc.1, rest)
    else if m.isRequest then (acc.1 ++ [{ request := m, response := o, grpc := m.isGrpc || o.isGrpc }], rest)
    else (acc.1 ++ [{ request := o, response := m, grpc := m.isGrpc || o.isGrpc }], rest)
  | none => (acc.1, acc.2 ++ [m])

/-- both halves through the matcher (client half first): pairing by stream id; the item is
    gRPC when either message of the pair carries a gRPC marker -/
def pair (reqs resps : List Msg) : List Item × Nat × Nat :=
  let r := (reqs ++ resps).foldl register ([], [])
  (r.1, (r.2.filter (·.isRequest)).length, (r.2.filter (!·.isRequest)).length)

def canonHeaders (hs : List (Bytes × Bytes)) : Sx :=
  -- Content-Length is rebuilt by the HAR conversion from the length of the data kept: not compared (the harness drops
  -- it from the observation as well), whatever a message put there
  let kept := (hs.filter fun h => Wire.lower h.1 != bytesOfString "content-length").map fun h => (canonicalName h.1, h.2)
  let sorted := kept.mergeSort fun a b =>
    Sx.hexOfBytes a.1 < Sx.hexOfBytes b.1 || (Sx.hexOfBytes a.1 == Sx.hexOfBytes b.1 && Sx.hexOfBytes a.2 ≤ Sx.hexOfBytes b.2)
  .list (.atom "hdr" :: sorted.map fun (n, v) => .list [Sx.ofBytes n, Sx.ofBytes v])

def msgSx (m : Msg) : Sx :=
  if m.isRequest then .list [.atom "req", Sx.ofBytes m.method, canonHeaders m.headers, Sx.ofNat m.data.length, Sx.ofBytes (m.data.take 64)]
  else .list [.atom "resp", Sx.ofNat m.status, canonHeaders m.headers, Sx.ofNat m.data.length, Sx.ofBytes (m.data.take 64)]

def observe (cf sf : List Frame) : Sx :=
  let reqs := (assemble [] cf).filter (·.isRequest)
  let resps := (assemble [] sf).filter (!·.isRequest)
  let (items, lq, lr) := pair reqs resps
  .list [.list (.atom "items" :: items.map fun it => .list [msgSx it.request, msgSx it.response, .atom (if it.grpc then "gRPC" else "HTTP/2")]),
         .list [.atom "left", Sx.ofNat lq, Sx.ofNat lr]]

/-! ### spec -/

namespace Spec

/-- the frames of one stream on one half, in order -/
def ofStream (sid : Nat) (fs : List Frame) : List Frame := fs.filter fun f => frameSid f == sid

def streamHeaders (fs : List Frame) : List (Bytes × Bytes) :=
  fs.flatMap fun f => match f with | .headers _ fields _ => fields | _ => []

def streamData (fs : List Frame) : Bytes :=
  fs.flatMap fun f => match f with | .data _ p _ => p | _ => []

def completed (fs : List Frame) : Bool := fs.any isStreamEnd

def streamIds (fs : List Frame) : List Nat :=
  (fs.filterMap fun f => match f with | .other _ => none | f => some (frameSid f)).eraseDups

/-- expected items: one per stream completed on both halves, in the order the responses complete -/
def expected (cf sf : List Frame) : Sx :=
  let order := (sf.filter isStreamEnd).map frameSid |>.eraseDups
  let items := order.filterMap fun sid =>
    let cq := ofStream sid cf
    let sq := ofStream sid sf
    if completed cq && completed sq then
      let qh := streamHeaders cq
      let rh := streamHeaders sq
      let grpc := grpcMarked qh || grpcMarked rh
      let qd := (streamData cq).take maxData
      let rd := (streamData sq).take maxData
      some (Sx.list [
        .list [.atom "req", Sx.ofBytes (headerGet qh ":method"), canonHeaders qh, Sx.ofNat qd.length, Sx.ofBytes (qd.take 64)],
        .list [.atom "resp", Sx.ofNat ((decNat? (headerGet rh ":status")).getD 0), canonHeaders rh, Sx.ofNat rd.length, Sx.ofBytes (rd.take 64)],
        .atom (if grpc then "gRPC" else "HTTP/2")])
    else none
  let lq := ((streamIds cf).filter fun sid => completed (ofStream sid cf) && !completed (ofStream sid sf)).length
  let lr := ((streamIds sf).filter fun sid => completed (ofStream sid sf) && !completed (ofStream sid cf)).length
  .list [.list (.atom "items" :: items), .list [.atom "left", Sx.ofNat lq, Sx.ofNat lr]]

end Spec

end KsVerif.Http.H2
