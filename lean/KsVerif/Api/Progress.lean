/-
  C20 (first half): the progress counter of a half connection.

  Model  = `Gen.ReadProgress` — regenerated from pkg/api/api.go by ksextract on every run.
  Spec   = "a reading returns the bytes fed since the previous reading (or reset)".
-/
import KsVerif.Generated.GenReadProgress
import KsVerif.Base.Verdict

namespace KsVerif.Progress

inductive Op where
  | feed (n : Int)
  | current
  | reset
  deriving Repr, DecidableEq

abbrev St := Gen.ReadProgress.St

/-- One operation of the (generated) model: new state and, for `current`, the reading. -/
def step (p : St) : Op → St × Option Int
  | .feed n  => ((Gen.ReadProgress.feed p n).1, none)
  | .current => let r := Gen.ReadProgress.current p; (r.1, some r.2)
  | .reset   => ((Gen.ReadProgress.reset p).1, none)

/-- Readings produced by a sequence of operations from state `p`. -/
def run (p : St) : List Op → List Int
  | [] => []
  | op :: ops =>
    match step p op with
    | (p', some r) => r :: run p' ops
    | (p', none)   => run p' ops

/-- Spec: `pending` = bytes fed and not yet reported. -/
def specStep (pending : Int) : Op → Int × Option Int
  | .feed n  => (pending + n, none)
  | .current => (0, some pending)
  | .reset   => (0, none)

def specRun (pending : Int) : List Op → List Int
  | [] => []
  | op :: ops =>
    match specStep pending op with
    | (q, some r) => r :: specRun q ops
    | (q, none)   => specRun q ops

/-- Total of the amounts fed by `ops` after the last reset. -/
def fedSinceReset : List Op → Int
  | [] => 0
  | .feed n :: ops => if ops.any (· == .reset) then fedSinceReset ops else n + fedSinceReset ops
  | .current :: ops => fedSinceReset ops
  | .reset :: ops => fedSinceReset ops

/-! ### line protocol -/

def opOfSx : Sx → Option Op
  | .list [.atom "feed", n] => n.asInt?.map Op.feed
  | .atom "current" => some .current
  | .atom "reset" => some .reset
  | _ => none

def opsOfSx : Sx → Option (List Op)
  | .list xs => xs.mapM opOfSx
  | _ => none

def obsOfReadings (rs : List Int) : Sx := .list (rs.map Sx.ofInt)

def judge (payload impl : String) : Verdict :=
  match Sx.parse payload >>= opsOfSx with
  | none => .bad "bad-case"
  | some ops =>
    let m := (obsOfReadings (run Gen.ReadProgress.init ops)).toStr
    let s := (obsOfReadings (specRun 0 ops)).toStr
    let readings := (ops.filter (· == .current)).length
    .exact m s impl (nontrivial := readings ≥ 2)
      (cls := s!"readings={min readings 4},reset={ops.any (· == .reset)}")

end KsVerif.Progress
