/-
  AMQP 0-9-1 as specified (amqp0-9-1.xml with the RabbitMQ extensions confirm.select,
  connection.blocked / unblocked, exchange.bind / unbind, basic.nack): for every (class, method)
  the argument fields in wire order with their domains, consecutive bit fields packed into one
  octet from bit 0 upwards; and the fourteen basic content properties with their flag bits.

  HAND-WRITTEN, independent of the dissector: this is the reference `Spec` reports are computed
  from.  `Proofs/C05.c05_method_table` states that the table re-translated from spec091.go on
  every run equals this one.  Field names are the protocol's names in the camel-case the
  dissector's reports use; the third component is the name the report carries for the method.
-/
import KsVerif.Amqp.Kinds

namespace KsVerif.Amqp.SpecTable
open KsVerif.Amqp (Kind)

def methods : List (Nat × Nat × String × List (String × Kind)) := [
  (10, 10, "ConnectionStart", [("VersionMajor", .octet), ("VersionMinor", .octet), ("ServerProperties", .table), ("Mechanisms", .longstr), ("Locales", .longstr)]),
  (10, 11, "ConnectionStartOk", [("ClientProperties", .table), ("Mechanism", .shortstr), ("Response", .longstr), ("Locale", .shortstr)]),
  (10, 20, "connectionSecure", [("Challenge", .longstr)]),
  (10, 21, "connectionSecureOk", [("Response", .longstr)]),
  (10, 30, "connectionTune", [("ChannelMax", .short), ("FrameMax", .long), ("Heartbeat", .short)]),
  (10, 31, "connectionTuneOk", [("ChannelMax", .short), ("FrameMax", .long), ("Heartbeat", .short)]),
  (10, 40, "connectionOpen", [("VirtualHost", .shortstr), ("reserved1", .shortstr), ("", .bits ["reserved2"])]),
  (10, 41, "connectionOpenOk", [("reserved1", .shortstr)]),
  (10, 50, "ConnectionClose", [("ReplyCode", .short), ("ReplyText", .shortstr), ("ClassId", .short), ("MethodId", .short)]),
  (10, 51, "ConnectionCloseOk", []),
  (10, 60, "connectionBlocked", [("Reason", .shortstr)]),
  (10, 61, "connectionUnblocked", []),
  (20, 10, "channelOpen", [("reserved1", .shortstr)]),
  (20, 11, "channelOpenOk", [("reserved1", .longstr)]),
  (20, 20, "channelFlow", [("", .bits ["Active"])]),
  (20, 21, "channelFlowOk", [("", .bits ["Active"])]),
  (20, 40, "channelClose", [("ReplyCode", .short), ("ReplyText", .shortstr), ("ClassId", .short), ("MethodId", .short)]),
  (20, 41, "channelCloseOk", []),
  (40, 10, "ExchangeDeclare", [("reserved1", .short), ("Exchange", .shortstr), ("Type", .shortstr), ("", .bits ["Passive", "Durable", "AutoDelete", "Internal", "NoWait"]), ("Arguments", .table)]),
  (40, 11, "ExchangeDeclareOk", []),
  (40, 20, "exchangeDelete", [("reserved1", .short), ("Exchange", .shortstr), ("", .bits ["IfUnused", "NoWait"])]),
  (40, 21, "exchangeDeleteOk", []),
  (40, 30, "exchangeBind", [("reserved1", .short), ("Destination", .shortstr), ("Source", .shortstr), ("RoutingKey", .shortstr), ("", .bits ["NoWait"]), ("Arguments", .table)]),
  (40, 31, "exchangeBindOk", []),
  (40, 40, "exchangeUnbind", [("reserved1", .short), ("Destination", .shortstr), ("Source", .shortstr), ("RoutingKey", .shortstr), ("", .bits ["NoWait"]), ("Arguments", .table)]),
  (40, 51, "exchangeUnbindOk", []),
  (50, 10, "QueueDeclare", [("reserved1", .short), ("Queue", .shortstr), ("", .bits ["Passive", "Durable", "Exclusive", "AutoDelete", "NoWait"]), ("Arguments", .table)]),
  (50, 11, "QueueDeclareOk", [("Queue", .shortstr), ("MessageCount", .long), ("ConsumerCount", .long)]),
  (50, 20, "QueueBind", [("reserved1", .short), ("Queue", .shortstr), ("Exchange", .shortstr), ("RoutingKey", .shortstr), ("", .bits ["NoWait"]), ("Arguments", .table)]),
  (50, 21, "QueueBindOk", []),
  (50, 30, "queuePurge", [("reserved1", .short), ("Queue", .shortstr), ("", .bits ["NoWait"])]),
  (50, 31, "queuePurgeOk", [("MessageCount", .long)]),
  (50, 40, "queueDelete", [("reserved1", .short), ("Queue", .shortstr), ("", .bits ["IfUnused", "IfEmpty", "NoWait"])]),
  (50, 41, "queueDeleteOk", [("MessageCount", .long)]),
  (50, 50, "queueUnbind", [("reserved1", .short), ("Queue", .shortstr), ("Exchange", .shortstr), ("RoutingKey", .shortstr), ("Arguments", .table)]),
  (50, 51, "queueUnbindOk", []),
  (60, 10, "basicQos", [("PrefetchSize", .long), ("PrefetchCount", .short), ("", .bits ["Global"])]),
  (60, 11, "basicQosOk", []),
  (60, 20, "BasicConsume", [("reserved1", .short), ("Queue", .shortstr), ("ConsumerTag", .shortstr), ("", .bits ["NoLocal", "NoAck", "Exclusive", "NoWait"]), ("Arguments", .table)]),
  (60, 21, "BasicConsumeOk", [("ConsumerTag", .shortstr)]),
  (60, 30, "basicCancel", [("ConsumerTag", .shortstr), ("", .bits ["NoWait"])]),
  (60, 31, "basicCancelOk", [("ConsumerTag", .shortstr)]),
  (60, 40, "BasicPublish", [("reserved1", .short), ("Exchange", .shortstr), ("RoutingKey", .shortstr), ("", .bits ["Mandatory", "Immediate"])]),
  (60, 50, "basicReturn", [("ReplyCode", .short), ("ReplyText", .shortstr), ("Exchange", .shortstr), ("RoutingKey", .shortstr)]),
  (60, 60, "BasicDeliver", [("ConsumerTag", .shortstr), ("DeliveryTag", .longlong), ("", .bits ["Redelivered"]), ("Exchange", .shortstr), ("RoutingKey", .shortstr)]),
  (60, 70, "basicGet", [("reserved1", .short), ("Queue", .shortstr), ("", .bits ["NoAck"])]),
  (60, 71, "basicGetOk", [("DeliveryTag", .longlong), ("", .bits ["Redelivered"]), ("Exchange", .shortstr), ("RoutingKey", .shortstr), ("MessageCount", .long)]),
  (60, 72, "basicGetEmpty", [("reserved1", .shortstr)]),
  (60, 80, "basicAck", [("DeliveryTag", .longlong), ("", .bits ["Multiple"])]),
  (60, 90, "basicReject", [("DeliveryTag", .longlong), ("", .bits ["Requeue"])]),
  (60, 100, "basicRecoverAsync", [("", .bits ["Requeue"])]),
  (60, 110, "basicRecover", [("", .bits ["Requeue"])]),
  (60, 111, "basicRecoverOk", []),
  (60, 120, "basicNack", [("DeliveryTag", .longlong), ("", .bits ["Multiple", "Requeue"])]),
  (85, 10, "confirmSelect", [("", .bits ["Nowait"])]),
  (85, 11, "confirmSelectOk", []),
  (90, 10, "txSelect", []),
  (90, 11, "txSelectOk", []),
  (90, 20, "txCommit", []),
  (90, 21, "txCommitOk", []),
  (90, 30, "txRollback", []),
  (90, 31, "txRollbackOk", [])
]

def properties : List (Nat × String × Kind) := [
  (32768, "ContentType", .shortstr),
  (16384, "ContentEncoding", .shortstr),
  (8192, "Headers", .table),
  (4096, "DeliveryMode", .octet),
  (2048, "Priority", .octet),
  (1024, "CorrelationId", .shortstr),
  (512, "ReplyTo", .shortstr),
  (256, "Expiration", .shortstr),
  (128, "MessageId", .shortstr),
  (64, "Timestamp", .timestamp),
  (32, "Type", .shortstr),
  (16, "UserId", .shortstr),
  (8, "AppId", .shortstr),
  (4, "reserved1", .shortstr)
]

end KsVerif.Amqp.SpecTable
