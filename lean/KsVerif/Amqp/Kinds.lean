namespace KsVerif.Amqp

/-- kinds of AMQP method / property fields, as the generated decoders read them -/
inductive Kind where
  | octet | short | long | longlong
  | shortstr | longstr | table | timestamp
  | bits (names : List String)      -- one octet, bit k = names[k]
  deriving DecidableEq, Repr, Inhabited

end KsVerif.Amqp
