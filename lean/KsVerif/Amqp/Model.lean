/-
  Model of pkg/extensions/amqp: read.go (frames, field tables, content headers), the method
  argument decoders of spec091.go (driven by the regenerated table `Gen.Amqp.methods`), and
  the Dissect state machine of main.go with its events.

  A half connection is the bytes that remain and how the stream ends.  All multi-byte reads
  of the Go code go through io.ReadFull / binary.Read / io.CopyN on the bufio.Reader, which
  depend on the remaining bytes only (C08: segmentation-agnostic by construction).
-/
import KsVerif.Generated.GenAmqpMethods

namespace KsVerif.Amqp

abbrev Bytes := List UInt8

inductive Tail where
  | eof | err
  deriving DecidableEq, Repr, Inhabited

inductive Err where
  | eof              -- io.EOF
  | unexpectedEof    -- io.ErrUnexpectedEOF
  | readErr          -- the reader failed
  | frame            -- ErrFrame
  | syntax           -- ErrSyntax
  | maxSize          -- ErrMaxSize
  | heartbeatPayload
  | unknownMethod | unknownClass
  | outOfFuel
  | panic (site : String)
  deriving DecidableEq, Repr, Inhabited

def Err.isProtocol : Err → Bool
  | .frame | .syntax | .maxSize | .heartbeatPayload | .unknownMethod | .unknownClass => true
  | _ => false

def Err.isPanic : Err → Bool
  | .panic _ => true
  | _ => false

structure St where
  rem : Bytes
  tail : Tail
  deriving Repr

/-- a failed read: the error and where the stream stands afterwards (Dissect goes on
    reading after a malformed frame) -/
structure Fail where
  err : Err
  st : St
  deriving Repr

abbrev R (α : Type) := Except Fail (α × St)

def fail {α : Type} (e : Err) (st : St) : R α := .error { err := e, st }

/-- io.ReadFull(r, n bytes): EOF only when nothing at all could be read; a short read
    consumes what there was -/
def readFull (n : Nat) (st : St) : R Bytes :=
  if n = 0 then .ok ([], st)
  else if st.rem.length ≥ n then .ok (st.rem.take n, { st with rem := st.rem.drop n })
  else
    let drained : St := { st with rem := [] }
    match st.tail with
    | .err => fail .readErr drained
    | .eof => if st.rem.isEmpty then fail .eof drained else fail .unexpectedEof drained

def beNat (bs : Bytes) : Nat := bs.foldl (fun acc b => acc * 256 + b.toNat) 0

def readUInt (n : Nat) (st : St) : R Nat :=
  match readFull n st with
  | .error e => .error e
  | .ok (bs, st) => .ok (beNat bs, st)

/-- two's complement value of an `n`-byte big-endian integer -/
def toSigned (bytes : Nat) (v : Nat) : Int :=
  if v ≥ 2 ^ (8 * bytes - 1) then (v : Int) - (2 : Int) ^ (8 * bytes) else v

/-- IEEE 754 bit patterns that are neither NaN nor ±Inf (exponent not all ones): readField reports
    the others as nil, JSON having no way to carry them -/
def finite32 (bits : Nat) : Bool := (bits / 8388608) % 256 != 255
def finite64 (bits : Nat) : Bool := (bits / 4503599627370496) % 2048 != 2047

/-- readTimestamp: seconds whose year falls outside [0, 9999] (what Time.MarshalJSON accepts)
    are reported as the zero time -/
def clampTime (sec : Int) : Int :=
  if sec < -62167219200 ∨ sec > 253402300799 then -62135596800 else sec

/-- table field values -/
inductive FVal where
  | bool (b : Bool)
  | byte (b : Nat)
  | i16 (n : Int) | i32 (n : Int) | i64 (n : Int)
  | f32 (bits : Nat) | f64 (bits : Nat)
  | decimal (scale : Nat) (value : Int)
  | str (s : Bytes)
  | arr (xs : List FVal)
  | time (sec : Int)
  | table (kvs : List (Bytes × FVal))
  | nil
  | bytes (b : Bytes)
  deriving Repr, Inhabited

def readShortStr (st : St) : R Bytes :=
  match readUInt 1 st with
  | .error e => .error e
  | .ok (n, st) => readFull n st

/-- readBytes (io.CopyN into a growing buffer): like ReadFull, EOF only if nothing was read -/
def readBytesN (n : Nat) (st : St) : R Bytes := readFull n st

def readLongStr (st : St) : R Bytes :=
  match readUInt 4 st with
  | .error e => .error e
  | .ok (n, st) =>
    if n > 2147483647 then .ok ([], st)       -- "slices can't be longer than max int32": empty, no error
    else readBytesN n st

mutual
  /-- readField -/
  def readField : Nat → St → R FVal
    | 0, st => fail .outOfFuel st
    | fuel + 1, st =>
      match readUInt 1 st with
      | .error e => .error e
      | .ok (typ, st) =>
        if typ = 116 then       -- 't'
          match readUInt 1 st with
          | .error e => .error e
          | .ok (v, st) => .ok (.bool (v ≠ 0), st)
        else if typ = 98 then   -- 'b'
          match readUInt 1 st with
          | .error e => .error e
          | .ok (v, st) => .ok (.byte v, st)
        else if typ = 115 then  -- 's'
          match readUInt 2 st with
          | .error e => .error e
          | .ok (v, st) => .ok (.i16 (toSigned 2 v), st)
        else if typ = 73 then   -- 'I'
          match readUInt 4 st with
          | .error e => .error e
          | .ok (v, st) => .ok (.i32 (toSigned 4 v), st)
        else if typ = 108 then  -- 'l'
          match readUInt 8 st with
          | .error e => .error e
          | .ok (v, st) => .ok (.i64 (toSigned 8 v), st)
        else if typ = 102 then  -- 'f'
          match readUInt 4 st with
          | .error e => .error e
          | .ok (v, st) => .ok (if finite32 v then .f32 v else .nil, st)
        else if typ = 100 then  -- 'd'
          match readUInt 8 st with
          | .error e => .error e
          | .ok (v, st) => .ok (if finite64 v then .f64 v else .nil, st)
        else if typ = 68 then   -- 'D'
          match readUInt 1 st with
          | .error e => .error e
          | .ok (scale, st) =>
            match readUInt 4 st with
            | .error e => .error e
            | .ok (v, st) => .ok (.decimal scale (toSigned 4 v), st)
        else if typ = 83 then   -- 'S'
          match readLongStr st with
          | .error e => .error e
          | .ok (s, st) => .ok (.str s, st)
        else if typ = 65 then   -- 'A'
          match readUInt 4 st with
          | .error e => .error e
          | .ok (size, st) =>
            -- io.LimitedReader over the stream: at most `size` bytes are visible to the items
            let window : St := { rem := st.rem.take size, tail := if st.rem.length ≥ size then .eof else st.tail }
            match readArrayItems fuel window with
            | .error f => .error { err := f.err, st := { st with rem := f.st.rem ++ st.rem.drop size } }
            | .ok (xs, w) => .ok (.arr xs, { st with rem := w.rem ++ st.rem.drop size })
        else if typ = 84 then   -- 'T'
          match readUInt 8 st with
          | .error e => .error e
          | .ok (v, st) => .ok (.time (clampTime (toSigned 8 v)), st)
        else if typ = 70 then   -- 'F'
          match readTable fuel st with
          | .error e => .error e
          | .ok (t, st) => .ok (.table t, st)
        else if typ = 120 then  -- 'x'
          match readUInt 4 st with
          | .error e => .error e
          | .ok (v, st) =>
            let len := toSigned 4 v
            if len < 0 then fail .syntax st       -- guard in front of the allocation
            else match readBytesN len.toNat st with
              | .error e => .error e
              | .ok (b, st) => .ok (.bytes b, st)
        else if typ = 86 then .ok (.nil, st)   -- 'V'
        else fail .syntax st
  /-- the loop of readArray: until the limited reader is exhausted -/
  def readArrayItems : Nat → St → R (List FVal)
    | 0, st => fail .outOfFuel st
    | fuel + 1, w =>
      match readField fuel w with
      | .error f => if f.err = .eof then .ok ([], f.st) else .error f   -- `if err == io.EOF { break }`
      | .ok (v, w') =>
        match readArrayItems fuel w' with
        | .error e => .error e
        | .ok (vs, w'') => .ok (v :: vs, w'')
  /-- readTable: a long string, then name/value pairs parsed from it -/
  def readTable : Nat → St → R (List (Bytes × FVal))
    | 0, st => fail .outOfFuel st
    | fuel + 1, st =>
      match readLongStr st with
      | .error e => .error e
      | .ok (s, st) =>
        match readPairs fuel { rem := s, tail := .eof } with
        | .error f => .error { err := f.err, st := st }     -- the nested buffer failed; the stream stands after the long string
        | .ok kvs => .ok (kvs, st)
  def readPairs : Nat → St → Except Fail (List (Bytes × FVal))
    | 0, st => .error { err := .outOfFuel, st }
    | fuel + 1, nested =>
      if nested.rem.isEmpty then .ok []
      else
        match readShortStr nested with
        | .error f => .error f
        | .ok (k, nested) =>
          match readField fuel nested with
          | .error f => .error f
          | .ok (v, nested) =>
            match readPairs fuel nested with
            | .error e => .error e
            | .ok kvs => .ok ((k, v) :: kvs)
end

/-- argument values of a method / property -/
inductive AVal where
  | num (n : Nat)
  | str (s : Bytes)
  | table (kvs : List (Bytes × FVal))
  | time (sec : Int)
  | flag (b : Bool)
  deriving Repr, Inhabited

def bit (v k : Nat) : Bool := (v / 2 ^ k) % 2 = 1

/-- one field of a generated `read` function -/
def readKind (fuel : Nat) (name : String) (k : Kind) (st : St) : R (List (String × AVal)) :=
  match k with
  | .octet => (readUInt 1 st).map fun (v, st) => ([(name, .num v)], st)
  | .short => (readUInt 2 st).map fun (v, st) => ([(name, .num v)], st)
  | .long => (readUInt 4 st).map fun (v, st) => ([(name, .num v)], st)
  | .longlong => (readUInt 8 st).map fun (v, st) => ([(name, .num v)], st)
  | .shortstr => (readShortStr st).map fun (s, st) => ([(name, .str s)], st)
  | .longstr => (readLongStr st).map fun (s, st) => ([(name, .str s)], st)
  | .table => (readTable fuel st).map fun (t, st) => ([(name, .table t)], st)
  | .timestamp => (readUInt 8 st).map fun (v, st) => ([(name, .time (clampTime (toSigned 8 v)))], st)
  | .bits names => (readUInt 1 st).map fun (v, st) => (names.zipIdx.map fun (n, i) => (n, .flag (bit v i)), st)

def readArgs (fuel : Nat) : List (String × Kind) → St → R (List (String × AVal))
  | [], st => .ok ([], st)
  | (n, k) :: rest, st =>
    match readKind fuel n k st with
    | .error e => .error e
    | .ok (vs, st) =>
      match readArgs fuel rest st with
      | .error e => .error e
      | .ok (ws, st) => .ok (vs ++ ws, st)

inductive Frame where
  | method (channel classId methodId : Nat) (typ : String) (args : List (String × AVal))
  | header (channel classId : Nat) (bodySize : Nat) (props : List (String × AVal))
  | body (channel : Nat) (payload : Bytes)
  | heartbeat (channel : Nat)
  deriving Repr, Inhabited

def lookupMethod (c m : Nat) : Option (String × List (String × Kind)) :=
  (Gen.Amqp.methods.find? fun e => e.1 = c ∧ e.2.1 = m).map fun e => (e.2.2.1, e.2.2.2)

def classKnown (c : Nat) : Bool := Gen.Amqp.methods.any fun e => e.1 = c

/-- properties of a content header: each one present iff its flag bit is set -/
def readProps (fuel : Nat) (flags : Nat) : List (Nat × String × Kind) → St → R (List (String × AVal))
  | [], st => .ok ([], st)
  | (flag, name, k) :: rest, st =>
    if (flags / flag) % 2 = 1 then
      match readKind fuel name k st with
      | .error e => .error e
      | .ok (vs, st) =>
        match readProps fuel flags rest st with
        | .error e => .error e
        | .ok (ws, st) => .ok (vs ++ ws, st)
    else readProps fuel flags rest st

def frameEnd : Nat := 206

/-- AmqpReader.readFrame -/
def readFrame (st : St) : R Frame :=
  let fuel := st.rem.length + 8
  match readFull 7 st with
  | .error e => .error e
  | .ok (h, st) =>
    let typ := (h.getD 0 0).toNat
    let channel := beNat ((h.drop 1).take 2)
    let size := beNat ((h.drop 3).take 4)
    if size > 16000000 then fail .maxSize st
    else
      let parsed : R Frame :=
        if typ = 1 then
          match readUInt 2 st with
          | .error e => .error e
          | .ok (c, st) =>
            match readUInt 2 st with
            | .error e => .error e
            | .ok (m, st) =>
              match lookupMethod c m with
              | none => fail (if classKnown c then .unknownMethod else .unknownClass) st
              | some (tname, fields) =>
                match readArgs fuel fields st with
                | .error e => .error e
                | .ok (args, st) => .ok (.method channel c m tname args, st)
        else if typ = 2 then
          match readUInt 2 st with
          | .error e => .error e
          | .ok (c, st) =>
            match readUInt 2 st with      -- weight
            | .error e => .error e
            | .ok (_, st) =>
              match readUInt 8 st with
              | .error e => .error e
              | .ok (bodySize, st) =>
                match readUInt 2 st with
                | .error e => .error e
                | .ok (flags, st) =>
                  match readProps fuel flags Gen.Amqp.properties st with
                  | .error e => .error e
                  | .ok (props, st) => .ok (.header channel c bodySize props, st)
        else if typ = 3 then
          match readFull size st with
          | .error e => .error e
          | .ok (b, st) => .ok (.body channel b, st)
        else if typ = 8 then
          if size > 0 then fail .heartbeatPayload st else .ok (.heartbeat channel, st)
        else fail .frame st
      match parsed with
      | .error e => .error e
      | .ok (f, st) =>
        match readFull 1 st with
        | .error e => .error e
        | .ok (e, st) => if (e.getD 0 0).toNat = frameEnd then .ok (f, st) else fail .frame st

end KsVerif.Amqp
