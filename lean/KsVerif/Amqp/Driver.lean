/-
  Driver glue for the AMQP families.
-/
import KsVerif.Amqp.Spec
import KsVerif.Base.Verdict

namespace KsVerif.Amqp.Driver
open KsVerif KsVerif.Amqp KsVerif.Amqp.Spec

partial def fvalOfSx : Sx → Option FVal
  | .list [.atom "t", b] => b.asBool?.map .bool
  | .list [.atom "b", n] => n.asNat?.map .byte
  | .list [.atom "s", n] => n.asInt?.map .i16
  | .list [.atom "I", n] => n.asInt?.map .i32
  | .list [.atom "l", n] => n.asInt?.map .i64
  | .list [.atom "f", n] => n.asNat?.map .f32
  | .list [.atom "d", n] => n.asNat?.map .f64
  | .list [.atom "D", s, v] => do some (.decimal (← s.asNat?) (← v.asInt?))
  | .list [.atom "S", s] => s.asBytes?.map .str
  | .list (.atom "A" :: xs) => (xs.mapM fvalOfSx).map .arr
  | .list [.atom "T", n] => n.asInt?.map .time
  | .list [.atom "F", t] => (tableOfSx t).map .table
  | .list [.atom "V"] => some .nil
  | .list [.atom "x", b] => b.asBytes?.map .bytes
  | _ => none
where
  tableOfSx : Sx → Option (List (Bytes × FVal))
    | .list kvs => kvs.mapM fun (kv : Sx) => match kv with
      | Sx.list [k, v] => do some (← k.asBytes?, ← fvalOfSx v)
      | _ => none
    | _ => none

def argOfSx : Sx → Option Arg
  | .list [.atom "o", n] => n.asNat?.map .octet
  | .list [.atom "s", n] => n.asNat?.map .short
  | .list [.atom "l", n] => n.asNat?.map .long
  | .list [.atom "ll", n] => n.asNat?.map .longlong
  | .list [.atom "ss", s] => s.asBytes?.map .shortstr
  | .list [.atom "ls", s] => s.asBytes?.map .longstr
  | .list [.atom "t", t] => (fvalOfSx.tableOfSx t).map .table
  | .list [.atom "ts", n] => n.asInt?.map .timestamp
  | .list (.atom "bits" :: bs) => (bs.mapM Sx.asBool?).map .bits
  | _ => none

def frameOfSx : Sx → Option SFrame
  | .list [.atom "m", ch, c, m, .list args] => do
    some (.method (← ch.asNat?) (← c.asNat?) (← m.asNat?) (← args.mapM argOfSx))
  | .list [.atom "h", ch, c, size, flags, .list props] => do
    some (.header (← ch.asNat?) (← c.asNat?) (← size.asNat?) (← flags.asNat?) (← props.mapM argOfSx))
  | .list [.atom "b", ch, p] => do some (.body (← ch.asNat?) (← p.asBytes?))
  | .list [.atom "hb", ch] => ch.asNat?.map .heartbeat
  | _ => none

def sortedEventSx (e : Event) : Sx :=
  eventSx { e with fields := e.fields.mergeSort (fun a b => a.1 ≤ b.1) }

/-- both halves, client first, through one matcher -/
def observe (cb sb : Bytes) (ctail stail : Tail) (withBytes : Bool) (sides : String := "cs") : Sx :=
  let (ce, cerr) := if sides == "s" then ([], Err.eof) else dissectAll true cb ctail
  let (se, serr) := if sides == "c" then ([], Err.eof) else dissectAll false sb stail
  let (items, left) := matchEvents ((ce.map fun e => (true, e)) ++ (se.map fun e => (false, e))) []
  let leftStrs := (left.map fun e => (sortedEventSx e).toStr).mergeSort (fun a b => a ≤ b)
  let parts : List Sx :=
    (if withBytes then [.list [.atom "cbytes", Sx.ofBytes cb], .list [.atom "sbytes", Sx.ofBytes sb]] else []) ++
    [.list [.atom "c", .atom (if sides == "s" then "-" else errSym cerr)],
     .list [.atom "s", .atom (if sides == "c" then "-" else errSym serr)],
     .list (.atom "items" :: items.map fun it => .list [sortedEventSx it.request, sortedEventSx it.response, .atom "cs"]),
     .list (.atom "left" :: leftStrs.map fun s => (Sx.parse s).getD (.atom "?"))]
  .list parts

def field? (obs : Sx) (name : String) : Option (List Sx) :=
  match obs with
  | .list parts => parts.findSome? fun
      | .list (.atom n :: rest) => if n == name then some rest else none
      | _ => none
  | _ => none

/-- the non-synthetic events an observation reports, without their side, sorted -/
def reportedOf (obs : Sx) : List String :=
  let strip (e : Sx) : Option String := match e with
    | .list (_side :: m :: .atom typ :: rest) => if typ == "emptyResponse" then none else some (Sx.list (m :: .atom typ :: rest)).toStr
    | _ => none
  let fromItems := ((field? obs "items").getD []).flatMap fun it => match it with
    | .list [q, r, _] => [strip q, strip r].filterMap id
    | _ => []
  let fromLeft := ((field? obs "left").getD []).filterMap strip
  (fromItems ++ fromLeft).mergeSort (fun a b => a ≤ b)

def orientsOk (obs : Sx) : Bool :=
  ((field? obs "items").getD []).all fun it => match it with
    | .list [_, _, .atom "cs"] => true
    | _ => false

def noCrash (s : String) : Bool :=
  !((s.splitOn "panic").length > 1 || (s.splitOn "crash").length > 1 || (s.splitOn "timeout").length > 1 || (s.splitOn "missing").length > 1)

/-- progress.<proto> (C20): conservation of the fed bytes.  Every reading of the progress counter
    ends up as the capture size of a message; those in items, those still waiting in the matcher and
    what the counters hold at the end add up to the bytes fed.  (Kafka takes capture sizes from the
    message sizes instead of the counter: with nothing waiting they must add up to the bytes fed.)
    AMQP conversations holding connection.start-ok / tune-ok lose whole messages in the matcher
    (recorded finding `amqp-handshake-collision`), and their sizes with them. -/
def judgeProgress (proto payload impl : String) : Verdict :=
  let nums (name : String) : Option (Nat × Nat) :=
    match Sx.parse impl with
    | some o => match field? o name with
      | some [a, b] => do some ((← a.asNat?), (← b.asNat?))
      | _ => none
    | none => none
  let tags : List String :=
    if proto == "amqp" then
      match Sx.parse payload with
      | some (.list [.list [.list (.atom "c" :: cfs), .list (.atom "s" :: sfs)], _, _]) =>
        match cfs.mapM frameOfSx, sfs.mapM frameOfSx with
        | some cf, some sf => (Spec.tagsOf (cf ++ sf)).filter (· == "amqp-handshake-collision")
        | _, _ => []
      | _ => []
    else []
  match nums "fed", nums "items", nums "waiting", nums "rest" with
  | some (fc, fs), some (ni, si), some (nw, sw), some (rc, rs) =>
    let clean := noCrash impl && (impl.splitOn "unknown-waiting").length == 1
    let ok := if proto == "kafka" then nw != 0 || si == fc + fs else si + sw + rc + rs == fc + fs
    { corr := ok || !tags.isEmpty, implSpec := ok && clean, modelSpec := true, tags,
      nontrivial := ni + nw > 0, cls := s!"items={min ni 4},waiting={min nw 3}",
      model := s!"accounted = fed = {fc + fs}", spec := "capture sizes of all messages + what the counters still hold = bytes fed" }
  | _, _, _, _ => { corr := false, implSpec := false, modelSpec := true, tags := [], nontrivial := true,
                    cls := "no-observation", model := "-", spec := "capture sizes add up to the bytes fed" }

def judgeConv (payload impl : String) : Verdict :=
  match Sx.parse payload with
  | some (.list [.list (.atom "c" :: cfs), .list (.atom "s" :: sfs)]) =>
    match cfs.mapM frameOfSx, sfs.mapM frameOfSx with
    | some cf, some sf =>
      let cb := encFrames cf
      let sb := encFrames sf
      let m := observe cb sb .eof .eof true
      let implSx := Sx.parse impl
      let sameBytes := match implSx with
        | some o => ((field? o "cbytes").map fun l => (Sx.list l).toStr) == some (Sx.list [Sx.ofBytes cb]).toStr &&
                    ((field? o "sbytes").map fun l => (Sx.list l).toStr) == some (Sx.list [Sx.ofBytes sb]).toStr
        | none => false
      if !sameBytes && (implSx.bind (field? · "cbytes")).isSome then .bad "encoder-mismatch"
      else
        let expected := ((reports cf [] ++ reports sf []).map Sx.toStr).mergeSort (fun a b => a ≤ b)
        let check (o : Sx) : Bool := reportedOf o == expected && orientsOk o
        let nMethods := (cf ++ sf).length
        { corr := m.toStr == impl,
          implSpec := noCrash impl && (match implSx with | some o => check o | none => false),
          modelSpec := check m, tags := tagsOf (cf ++ sf),
          nontrivial := nMethods ≥ 1, cls := s!"frames={min nMethods 8},reports={min expected.length 6}",
          model := m.toStr, spec := s!"reports={expected}" }
    | _, _ => .bad "bad-case"
  | _ => .bad "bad-case"

def judgeRaw (payload impl : String) (splitMode : Bool := false) : Verdict :=
  match Sx.parse payload with
  | some (.list [.atom side, .list chunks, tail]) =>
    match chunks.mapM Sx.asBytes?, (match tail with | .atom "eof" => some Tail.eof | .atom "err" => some Tail.err | _ => none) with
    | some cs, some t =>
      let bytes := cs.flatten
      let m := if side == "c" then observe bytes [] t .eof false "c" else observe [] bytes .eof t false "s"
      if splitMode then
        { corr := m.toStr == impl, implSpec := m.toStr == impl, modelSpec := true, nontrivial := cs.length ≥ 2,
          cls := s!"chunks={min cs.length 4}", model := m.toStr, spec := m.toStr }
      else
        { corr := m.toStr == impl, implSpec := noCrash impl, modelSpec := noCrash m.toStr, nontrivial := bytes.length ≥ 7,
          cls := s!"chunks={min cs.length 4},len={min (bytes.length / 16) 6}", model := m.toStr,
          spec := "returns an end-of-stream or error result; never panics" }
    | _, _ => .bad "bad-case"
  | _ => .bad "bad-case"

end KsVerif.Amqp.Driver
