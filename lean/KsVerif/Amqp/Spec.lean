/-
  AMQP 0-9-1 as the property statement C05 describes it: an independent encoder from frame
  sequences to wire bytes and the reports a conversation must produce.  Nothing here reads
  the dissector model's decoders.
-/
import KsVerif.Amqp.Dissect
import KsVerif.Amqp.SpecTable

namespace KsVerif.Amqp.Spec
open KsVerif KsVerif.Amqp

/-- argument values as the generator states them -/
inductive Arg where
  | octet (n : Nat) | short (n : Nat) | long (n : Nat) | longlong (n : Nat)
  | shortstr (s : Bytes) | longstr (s : Bytes) | table (t : List (Bytes × FVal)) | timestamp (t : Int)
  | bits (bs : List Bool)
  deriving Repr, Inhabited

inductive SFrame where
  | method (ch classId methodId : Nat) (args : List Arg)
  | header (ch classId bodySize flags : Nat) (props : List Arg)
  | body (ch : Nat) (payload : Bytes)
  | heartbeat (ch : Nat)
  deriving Repr, Inhabited

/-! ### encoder -/

def be (n : Nat) (v : Nat) : Bytes := (List.range n).reverse.map fun i => UInt8.ofNat ((v / 256 ^ i) % 256)
def beInt (n : Nat) (v : Int) : Bytes := be n (if v < 0 then (v + (2 : Int) ^ (8 * n)).toNat else v.toNat)

mutual
  def encFVal : FVal → Bytes
    | .bool b => [116, if b then 1 else 0]
    | .byte n => [98, UInt8.ofNat n]
    | .i16 n => 115 :: beInt 2 n
    | .i32 n => 73 :: beInt 4 n
    | .i64 n => 108 :: beInt 8 n
    | .f32 n => 102 :: be 4 n
    | .f64 n => 100 :: be 8 n
    | .decimal s v => [68, UInt8.ofNat s] ++ beInt 4 v
    | .str s => 83 :: be 4 s.length ++ s
    | .arr xs => let inner := encFVals xs; 65 :: be 4 inner.length ++ inner
    | .time t => 84 :: beInt 8 t
    | .table kvs => 70 :: encTable kvs
    | .nil => [86]
    | .bytes b => 120 :: be 4 b.length ++ b
  def encFVals : List FVal → Bytes
    | [] => []
    | x :: xs => encFVal x ++ encFVals xs
  def encPairs : List (Bytes × FVal) → Bytes
    | [] => []
    | (k, v) :: rest => UInt8.ofNat k.length :: k ++ encFVal v ++ encPairs rest
  def encTable : List (Bytes × FVal) → Bytes
    | kvs => let inner := encPairs kvs; be 4 inner.length ++ inner
end

def encArg : Arg → Bytes
  | .octet n => be 1 n
  | .short n => be 2 n
  | .long n => be 4 n
  | .longlong n => be 8 n
  | .shortstr s => UInt8.ofNat s.length :: s
  | .longstr s => be 4 s.length ++ s
  | .table t => encTable t
  | .timestamp t => beInt 8 t
  | .bits bs => [UInt8.ofNat ((bs.zipIdx.map fun (b, i) => if b then 2 ^ i else 0).foldl (· + ·) 0)]

def encArgs (as : List Arg) : Bytes := (as.map encArg).flatten

def frameBytes (typ ch : Nat) (payload : Bytes) : Bytes :=
  be 1 typ ++ be 2 ch ++ be 4 payload.length ++ payload ++ [206]

def encFrame : SFrame → Bytes
  | .method ch c m args => frameBytes 1 ch (be 2 c ++ be 2 m ++ encArgs args)
  | .header ch c size flags props => frameBytes 2 ch (be 2 c ++ be 2 0 ++ be 8 size ++ be 2 flags ++ encArgs props)
  | .body ch payload => frameBytes 3 ch payload
  | .heartbeat ch => frameBytes 8 ch []

def encFrames (fs : List SFrame) : Bytes := (fs.map encFrame).flatten

/-! ### what must be reported -/

def argToAVal : Arg → List AVal
  | .octet n | .short n | .long n | .longlong n => [.num n]
  | .shortstr s | .longstr s => [.str s]
  | .table t => [.table t]
  | .timestamp t => [.time t]
  | .bits bs => bs.map .flag

/-- names of the argument values of a method, from the AMQP method table -/
def argNames (fields : List (String × Kind)) : List String :=
  fields.flatMap fun (n, k) => match k with
    | .bits names => names
    | _ => [n]

def namedArgs (c m : Nat) (args : List Arg) : Option (String × List (String × AVal)) :=
  -- the specified layout of the method, not the dissector's
  match (SpecTable.methods.find? fun e => e.1 = c ∧ e.2.1 = m).map fun e => (e.2.2.1, e.2.2.2) with
  | none => none
  | some (typ, fields) =>
    let vals := args.flatMap argToAVal
    let names := argNames fields
    if names.length == vals.length then some (typ, names.zip vals) else none

def reportedTypes : List String :=
  plainEventTypes ++ ["ConnectionStart", "connectionTune", "BasicPublish", "BasicDeliver"]

/-- content properties by name, from the flags and the values in wire order -/
def namedProps (flags : Nat) (props : List Arg) : List (String × AVal) :=
  let present := SpecTable.properties.filter fun (flag, _, _) => (flags / flag) % 2 = 1
  (present.map (·.2.1)).zip (props.flatMap argToAVal)

/-- per-channel content under assembly -/
structure Pending where
  ch : Nat
  typ : String
  method : String
  fields : List (String × AVal)
  props : List (String × AVal) := []
  size : Nat := 0
  haveHeader : Bool := false
  body : Bytes := []

/-- the reports one half must produce: every supported method with its argument values, and
    every content (publish / deliver) once, with the properties of its header and its whole
    body, on the channel it was sent on. -/
def reports : List SFrame → List Pending → List Sx
  | [], _ => []
  | f :: rest, pend =>
    match f with
    | .heartbeat _ => reports rest pend
    | .method ch c m args =>
      match namedArgs c m args with
      | none => reports rest pend
      | some (typ, named) =>
        if typ == "BasicPublish" || typ == "BasicDeliver" then
          reports rest ({ ch, typ, method := methodName c m, fields := exported named } :: pend.filter (·.ch != ch))
        else if reportedTypes.contains typ then
          Sx.list [Sx.ofString (methodName c m), .atom typ,
            .list ((exported named).mergeSort (fun a b => a.1 ≤ b.1) |>.map fun (n, v) => .list [.atom n, avalSx v])] ::
            reports rest (pend.filter (·.ch != ch))
        else reports rest (pend.filter (·.ch != ch))   -- a method ends any content under assembly on its channel
    | .header ch _ size flags props =>
      match pend.find? (·.ch == ch) with
      | none => reports rest pend
      | some p =>
        let p := { p with props := fixTimestamp (namedProps flags props), size, haveHeader := true }
        if size = 0 then
          contentSx p :: reports rest (pend.filter (·.ch != ch))
        else reports rest (p :: pend.filter (·.ch != ch))
    | .body ch payload =>
      match pend.find? (·.ch == ch) with
      | none => reports rest pend
      | some p =>
        let p := { p with body := p.body ++ payload }
        if p.haveHeader && p.body.length ≥ p.size then
          contentSx p :: reports rest (pend.filter (·.ch != ch))
        else reports rest (p :: pend.filter (·.ch != ch))
where
  contentSx (p : Pending) : Sx :=
    .list [Sx.ofString p.method, .atom p.typ,
      .list (p.fields.mergeSort (fun a b => a.1 ≤ b.1) |>.map fun (n, v) => .list [.atom n, avalSx v]),
      .list [.atom "props", propsSx p.props], .list [.atom "body", Sx.ofBytes p.body]]

/-- defect tags: shapes of content the dissector is known not to report as sent -/
def tagsOf (fs : List SFrame) : List String :=
  let bodies := fs.filter fun f => match f with | .body _ _ => true | _ => false
  let headers := fs.filterMap fun f => match f with | .header ch _ size _ _ => some (ch, size) | _ => none
  -- a body carried by more than one frame: more body frames on a channel than contents with a body
  let multi := headers.any fun (ch, _) =>
    (fs.filter fun f => match f with | .body c _ => c == ch | _ => false).length >
    (headers.filter fun (c, size) => c == ch && size > 0).length
  let empty := headers.any fun (_, size) => size == 0
  let _ := bodies
  let handshake := fs.any fun f => match f with
    | .method _ 10 11 _ => true
    | .method _ 10 31 _ => true
    | _ => false
  -- a content frame on a channel other than that of the latest method frame of the half: the
  -- dissector keeps one "last method" per half, not per channel
  let rec interleaved (last : Option Nat) : List SFrame → Bool
    | [] => false
    | .method ch _ _ _ :: rest => interleaved (some ch) rest
    | .header ch _ _ _ _ :: rest => (last != some ch) || interleaved last rest
    | .body ch _ :: rest => (last != some ch) || interleaved last rest
    | .heartbeat _ :: rest => interleaved last rest
  (if multi then ["amqp-body-per-frame"] else []) ++ (if empty then ["amqp-empty-body-unreported"] else []) ++
  (if handshake then ["amqp-handshake-collision"] else []) ++
  (if interleaved none fs then ["amqp-channel-interleaving"] else [])

end KsVerif.Amqp.Spec
