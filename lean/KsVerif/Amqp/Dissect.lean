/-
  The Dissect loop of pkg/extensions/amqp/main.go and the events it hands to the matcher.
-/
import KsVerif.Amqp.Model
import KsVerif.Base.Sx

namespace KsVerif.Amqp

/-- what emitEvent registers -/
structure Event where
  isRequest : Bool
  channel : Nat
  classId : Nat
  family : Nat                     -- methodId - methodId % 10
  method : String                  -- display name ("empty" for the synthetic counterpart)
  typ : String                     -- Go type of the details ("emptyResponse" for the counterpart)
  fields : List (String × AVal) := []
  props : Option (List (String × AVal)) := none
  body : Option Bytes := none
  deriving Repr, Inhabited

def isExported (name : String) : Bool :=
  match name.toList with
  | c :: _ => c.isUpper
  | [] => false

def exported (args : List (String × AVal)) : List (String × AVal) := args.filter fun a => isExported a.1

def methodName (c m : Nat) : String :=
  ((Gen.Amqp.methodNames.find? fun e => e.1 = c ∧ e.2.1 = m).map (·.2.2)).getD ""

structure DState where
  last : String := ""                       -- Go type of lastMethodFrameMessage ("" = nil)
  key : Nat × Nat × Nat := (0, 0, 0)        -- ident: channel, class, method family
  haveKey : Bool := false
  pub : List (String × AVal) := [("Exchange", .str []), ("RoutingKey", .str []), ("Mandatory", .flag false), ("Immediate", .flag false)]
  pubProps : List (String × AVal) := []
  del : List (String × AVal) := [("ConsumerTag", .str []), ("DeliveryTag", .num 0), ("Redelivered", .flag false), ("Exchange", .str []), ("RoutingKey", .str [])]
  delProps : List (String × AVal) := []

def getArg (args : List (String × AVal)) (n : String) : AVal :=
  ((args.find? fun a => a.1 == n).map (·.2)).getD (.str [])

/-- `header.Properties.Timestamp.Year() > 9999` resets the timestamp -/
def fixTimestamp (props : List (String × AVal)) : List (String × AVal) :=
  props.map fun (n, v) => match v with
    | .time sec => if sec ≥ 253402300800 then (n, .time (-62135596800)) else (n, v)
    | _ => (n, v)

/-- the methods whose frames produce an event as they are, on the side they arrive on -/
def plainEventTypes : List String :=
  ["QueueBind", "QueueBindOk", "BasicConsume", "BasicConsumeOk", "QueueDeclare", "QueueDeclareOk",
   "ExchangeDeclare", "ExchangeDeclareOk", "ConnectionStartOk", "ConnectionClose", "ConnectionCloseOk",
   "connectionOpen", "connectionOpenOk", "channelOpen", "channelOpenOk", "connectionTuneOk",
   "basicCancel", "basicCancelOk"]

/-- one frame through the switch of Dissect: new state and the events emitted, in order -/
def onFrame (isClient : Bool) (s : DState) (f : Frame) : DState × List Event :=
  match f with
  | .heartbeat _ => (s, [])
  | .header _ _ _ props =>
    let props := fixTimestamp props
    if s.last == "BasicPublish" then ({ s with pubProps := props }, [])
    else if s.last == "BasicDeliver" then ({ s with delProps := props }, [])
    else (s, [])
  | .body _ payload =>
    let (ch, cl, fam) := s.key
    let empty (isReq : Bool) : Event :=
      { isRequest := isReq, channel := ch, classId := cl, family := fam, method := "empty", typ := "emptyResponse" }
    if s.last == "BasicPublish" then
      (s, [{ isRequest := isClient, channel := ch, classId := cl, family := fam, method := methodName 60 40,
             typ := "BasicPublish", fields := s.pub, props := some s.pubProps, body := some payload },
           empty (!isClient)])
    else if s.last == "BasicDeliver" then
      (s, [{ isRequest := !isClient, channel := ch, classId := cl, family := fam, method := methodName 60 60,
             typ := "BasicDeliver", fields := s.del, props := some s.delProps, body := some payload },
           empty isClient])
    else (s, [])
  | .method channel c m typ args =>
    let key := (channel, c, m - m % 10)
    let s := { s with last := typ, key := key, haveKey := true }
    let ev (isReq : Bool) : Event :=
      { isRequest := isReq, channel := channel, classId := c, family := m - m % 10, method := methodName c m,
        typ := typ, fields := exported args }
    let empty (isReq : Bool) : Event :=
      { isRequest := isReq, channel := channel, classId := c, family := m - m % 10, method := "empty", typ := "emptyResponse" }
    if typ == "BasicPublish" then
      ({ s with pub := [("Exchange", getArg args "Exchange"), ("RoutingKey", getArg args "RoutingKey"),
                        ("Mandatory", getArg args "Mandatory"), ("Immediate", getArg args "Immediate")] }, [])
    else if typ == "BasicDeliver" then
      ({ s with del := [("ConsumerTag", getArg args "ConsumerTag"), ("DeliveryTag", getArg args "DeliveryTag"),
                        ("Redelivered", getArg args "Redelivered"), ("Exchange", getArg args "Exchange"),
                        ("RoutingKey", getArg args "RoutingKey")] }, [])
    else if typ == "ConnectionStart" || typ == "connectionTune" then
      (s, [ev (!isClient), empty isClient])
    else if plainEventTypes.contains typ then (s, [ev isClient])
    else (s, [])

/-- Dissect of one half: the events in order and the error that ended it.  After a
    malformed frame (protocol error) the loop goes on from where the reader stands; an
    end of stream or a failing reader ends it. -/
def dissect (isClient : Bool) : Nat → DState → St → List Event × Err
  | 0, _, _ => ([], .outOfFuel)
  | fuel + 1, s, st =>
    match readFrame st with
    | .error f =>
      if f.err.isProtocol then dissect isClient fuel s f.st
      else ([], f.err)
    | .ok (frame, st') =>
      let (s', evs) := onFrame isClient s frame
      let (rest, e) := dissect isClient fuel s' st'
      (evs ++ rest, e)

def dissectAll (isClient : Bool) (bytes : Bytes) (tail : Tail) : List Event × Err :=
  dissect isClient (bytes.length + 2) {} { rem := bytes, tail }

/-! ### the matcher: both halves registered into one map, client half first -/

structure Item where
  request : Event
  response : Event
  clientIsSource : Bool      -- ConnectionInfo oriented from the half that completed the pair
  deriving Repr, Inhabited

def sameKey (a b : Event) : Bool := a.channel == b.channel && a.classId == b.classId && a.family == b.family

/-- register events in order; `held` is the open-messages map -/
def matchEvents : List (Bool × Event) → List Event → List Item × List Event
  | [], held => ([], held)
  | (fromClient, e) :: rest, held =>
    match held.find? (sameKey e) with
    | some h =>
      let held' := held.filter fun x => !(sameKey e x)
      if h.isRequest == e.isRequest then matchEvents rest held'      -- same side: both dropped
      else
        let item : Item := if e.isRequest then ⟨e, h, fromClient⟩ else ⟨h, e, fromClient⟩
        let (items, left) := matchEvents rest held'
        (item :: items, left)
    | none => matchEvents rest (held ++ [e])

/-! ### observation -/

def hexSx (b : Bytes) : Sx := Sx.ofBytes b

/-- what a report can show of a float: a JSON number; NaN and ±Inf (exponent field all ones) are
    shown as no value -/
def shownFloat (mantissa expRange : Nat) (bits : Nat) : Bool := (bits / mantissa) % expRange != expRange - 1

/-- what a report can show of a timestamp: the reports are JSON documents, whose timestamps
    carry the years 0 .. 9999; anything else is shown as the zero time -/
def shownTime (sec : Int) : Int :=
  if -62167219200 ≤ sec ∧ sec ≤ 253402300799 then sec else -62135596800

partial def fvalSx : FVal → Sx
  | .bool b => .list [.atom "t", Sx.ofBool b]
  | .byte n => .list [.atom "b", Sx.ofNat n]
  | .i16 n => .list [.atom "s", Sx.ofInt n]
  | .i32 n => .list [.atom "I", Sx.ofInt n]
  | .i64 n => .list [.atom "l", Sx.ofInt n]
  | .f32 n => if shownFloat 8388608 256 n then .list [.atom "f", Sx.ofNat n] else .list [.atom "V"]
  | .f64 n => if shownFloat 4503599627370496 2048 n then .list [.atom "d", Sx.ofNat n] else .list [.atom "V"]
  | .decimal s v => .list [.atom "D", Sx.ofNat s, Sx.ofInt v]
  | .str s => .list [.atom "S", hexSx s]
  | .arr xs => .list (.atom "A" :: xs.map fvalSx)
  | .time t => .list [.atom "T", Sx.ofInt (shownTime t)]
  | .table kvs => .list (.atom "F" :: tableSx kvs)
  | .nil => .list [.atom "V"]
  | .bytes b => .list [.atom "x", hexSx b]
where
  /-- a Go map: the last value of a repeated key wins; printed sorted by key -/
  tableSx (kvs : List (Bytes × FVal)) : List Sx :=
    let dedup := kvs.foldl (fun acc kv => (acc.filter fun x => x.1 != kv.1) ++ [kv]) []
    let sorted := dedup.mergeSort (fun a b => Sx.hexOfBytes a.1 ≤ Sx.hexOfBytes b.1)
    sorted.map fun (k, v) => .list [hexSx k, fvalSx v]

def avalSx : AVal → Sx
  | .num n => Sx.ofNat n
  | .str s => hexSx s
  | .table kvs => .list (.atom "F" :: fvalSx.tableSx kvs)
  | .time t => .list [.atom "T", Sx.ofInt (shownTime t)]
  | .flag b => Sx.ofBool b

/-- Properties as the Go struct holds them: every exported field, zero value when absent -/
def propsSx (props : List (String × AVal)) : Sx :=
  .list (Gen.Amqp.properties.filterMap fun (_, name, kind) =>
    if !isExported name then none else
    let v : AVal := match props.find? (fun p => p.1 == name) with
      | some p => p.2
      | none => match kind with
        | .shortstr | .longstr => .str []
        | .table => .table []
        | .timestamp => .time (-62135596800)
        | _ => .num 0
    some (.list [.atom name, avalSx v]))

def eventSx (e : Event) : Sx :=
  .list ([.atom (if e.isRequest then "req" else "resp"), Sx.ofString e.method, .atom e.typ,
          .list (e.fields.map fun (n, v) => .list [.atom n, avalSx v])] ++
         (match e.props with | some p => [.list [.atom "props", propsSx p]] | none => []) ++
         (match e.body with | some b => [.list [.atom "body", hexSx b]] | none => []))

def errSym : Err → String
  | .eof => "eof" | .unexpectedEof => "unexpected-eof" | .readErr => "readerr" | .frame => "frame"
  | .syntax => "syntax" | .maxSize => "max-size" | .heartbeatPayload => "heartbeat-payload"
  | .unknownMethod => "unknown-method" | .unknownClass => "unknown-class" | .outOfFuel => "model-out-of-fuel"
  | .panic s => "panic:" ++ s

end KsVerif.Amqp
