import KsVerif.Base.Sx
import KsVerif.Base.Shape
import KsVerif.Api.Progress
