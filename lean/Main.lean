import KsVerif.Base.Verdict
import KsVerif.Api.Progress
open KsVerif

/-- One case: family, payload, implementation observation → verdict. -/
def judge (fam payload impl : String) : Verdict :=
  match fam with
  | "progress" => Progress.judge payload impl
  | _ => .bad "unknown-family"

partial def loop (h : IO.FS.Stream) (out : IO.FS.Stream) : IO Unit := do
  let line ← h.getLine
  if line.isEmpty then return ()
  let line := (line.dropEndWhile (fun c => c == '\n' || c == '\r')).toString
  match line.splitOn "\t" with
  | [id, fam, payload, impl] =>
    out.putStrLn s!"{id}\t{(judge fam payload impl).line}"
  | _ => out.putStrLn s!"?\t{(Verdict.bad "bad-line").line}"
  loop h out

def main : IO Unit := do
  let out ← IO.getStdout
  loop (← IO.getStdin) out
  out.flush
