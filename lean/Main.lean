import KsVerif.Base.Verdict
import KsVerif.Api.Progress
import KsVerif.Base.Cost
import KsVerif.Sched.Driver
import KsVerif.Redis.Driver
import KsVerif.Amqp.Driver
import KsVerif.Http.Driver
import KsVerif.Kafka.Driver
import KsVerif.Kfl.MacroDriver
import KsVerif.Kfl.Driver
import KsVerif.Stages.Driver
open KsVerif

/-- One case: family, payload, implementation observation → verdict. -/
def judge (fam payload impl : String) : Verdict :=
  match fam with
  | "progress" => Progress.judge payload impl
  | "http2.conv" => Http.Driver.judgeH2 payload impl
  | "http2.raw" => Http.Driver.judgeH2Raw payload impl
  | "http2.order" => Http.Driver.judgeH2Order payload impl
  | "http.conv" => Http.Driver.judgeConv payload impl
  | "http.split" => Http.Driver.judgeSplit payload impl
  | "http.rawsplit" => Http.Driver.judgeRawSplit payload impl
  | "http.trailer" => Http.Driver.judgeTrailer payload impl
  | "http.h2c" => Http.Driver.judgeH2c payload impl
  | "http.entry" => Http.Driver.judgeEntry payload impl
  | "kafka.conv" => Kafka.Driver.judgeConv payload impl
  | "kafka.raw" => Kafka.Driver.judgeRaw payload impl
  | "kafka.layout" => Kafka.Driver.judgeRaw payload impl
  | "kafka.split" => Kafka.Driver.judgeSplit payload impl
  | "amqp.conv" => Amqp.Driver.judgeConv payload impl
  | "amqp.raw" => Amqp.Driver.judgeRaw payload impl
  | "amqp.split" => Amqp.Driver.judgeRaw payload impl (splitMode := true)
  | "redis.conv" => Redis.Driver.judgeConv payload impl
  | "redis.bigreply" => Redis.Driver.judgeBigReply payload impl
  | "redis.convsplit" => Redis.Driver.judgeConv payload impl (splitMode := true)
  | "redis.raw" => Redis.Driver.judgeRaw payload impl
  | "redis.split" => Redis.Driver.judgeRaw payload impl (splitMode := true)
  | "kfl.eval" => Kfl.Driver.judgeEval .truth payload impl
  | "kfl.frame" => Kfl.Driver.judgeEval .frame payload impl
  | "kfl.redact" => Kfl.Driver.judgeRedact payload impl
  | "kfl.fuzz" => Kfl.Driver.judgeFuzz payload impl
  | "kfl.reuse" => Kfl.Driver.judgeEval .reuse payload impl
  | "kfl.macro" => Kfl.Macro.judge payload impl
  | "kfl.api" => Kfl.Macro.judgeApi payload impl
  | "kfl.redactf" => Kfl.Macro.judgeRedactF payload impl
  | "kfl.shared" => Kfl.Macro.judgeShared payload impl
  | "kfl.redactxml" => Kfl.Driver.judgeRedactXml payload impl
  | "sched.emit" => Sched.judgeEmit payload impl
  | "sched.excl" => Sched.judgeExcl payload impl
  | "sched.indep" => Sched.judgeIndep payload impl
  | "match.multi" => Sched.judgeMulti payload impl
  | "sched.dump" => Sched.judgeDump payload impl
  | _ =>
    if fam.startsWith "cost." then Cost.judge payload impl
    else if fam.startsWith "progress." then Amqp.Driver.judgeProgress (fam.drop 9).toString payload impl
    else if fam.startsWith "stages." then Stages.judgeStages (fam.drop 7).toString payload impl
    else if fam.startsWith "queries." then Stages.judgeQueries (fam.drop 8).toString payload impl
    else if fam.startsWith "sched.match." then Sched.judgeMatch (fam.drop 12).toString payload impl
    else .bad "unknown-family"

partial def loop (h : IO.FS.Stream) (out : IO.FS.Stream) : IO Unit := do
  let line ← h.getLine
  if line.isEmpty then return ()
  let line := (line.dropEndWhile (fun c => c == '\n' || c == '\r')).toString
  match line.splitOn "\t" with
  | [id, fam, payload, impl] =>
    out.putStrLn s!"{id}\t{(judge fam payload impl).line}"
  | _ => out.putStrLn s!"?\t{(Verdict.bad "bad-line").line}"
  loop h out

def main : IO Unit := do
  let out ← IO.getStdout
  loop (← IO.getStdin) out
  out.flush
